#!/bin/sh
# Offline set-up: syntax-check the specifications and build the model data-model libraries.
set -e
here="$(cd "$(dirname "$0")" && pwd)"
cd "$here"
mkdir -p build evidence
exec /venv/bin/python harness/setup_build.py
