CONSTANTS
  Names <- NamesT
  Unsent = "z"
  Scripts <- ScriptsQ
  MaxLen = 4
  MaxDeps = 2
  BlockLists <- Dup4All
INIT Init
NEXT Next
INVARIANT LoopMeetsSpecOutcome
INVARIANT LoopMeetsSpecScript
INVARIANT LoopNeverDrops
