CONSTANTS
  MaxSize = 13
  Prof <- ProfIntRDiv
  MathTable <- NoTable
  GenBackend = "any"
INIT GInit
NEXT GNext
INVARIANT Export
