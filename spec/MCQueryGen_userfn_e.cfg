CONSTANTS
  MaxSize = 11
  Prof <- ProfUserFnE
  MathTable <- NoTable
  GenBackend = "any"
INIT GInit
NEXT GNext
INVARIANT Export
