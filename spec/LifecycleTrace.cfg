INIT TInit
NEXT TNext
