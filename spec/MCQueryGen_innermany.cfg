CONSTANTS
  MaxSize = 12
  Prof <- ProfInnerMany
  MathTable <- NoTable
  GenBackend = "any"
INIT GInit
NEXT GNext
INVARIANT Export
