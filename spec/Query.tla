------------------------------- MODULE Query -------------------------------
(* Layer Q: abstract syntax of func_adl queries, their denotation on one event
   (ordinary Python/LINQ semantics), their static type / output schema, and the
   set of store requests they may make.

   A term is a record [k, a, b, n, d, ch]: kind, two string payloads, two integer
   payloads, children.  (All terms have the same fields so that sequences of
   them are homogeneous for TLC and for JSON.)

     k          a            b          n,d            ch
     DS                                                <<>>                 the event dataset
     Select     param                                  <<src, body>>
     SelectMany param                                  <<src, body>>
     Where      param                                  <<src, pred>>
     Let        param                                  <<arg, body>>        (lambda param: body)(arg)
     NonNull                                           <<ref>>              CMS isNonnull(ref): the reference points at an object
     First                                             <<src>>
     Count/Sum/Min/Max                                 <<src>>
     Aggregate  acc param    elem param                <<src, seed, body>>
     Coll       collection   bank                      <<event expr>>
     Single     collection   bank                      <<event expr>>       singleton collection
     Meth       method                  n = #args      <<receiver, args...>>
     Range                                             <<lo, hi>>
     Idx                                               <<collection, index>>
     Bin/Cmp    operator                               <<l, r>>
     Un         operator                               <<x>>
     And/Or                             n = #operands  <<x1..xn>>
     If                                                <<test, then, else>>
     Const      kind                    n/d            <<>>
     Str        text                                   <<>>
     Lit        kind         text                      <<>>                 numeric literal as exact text (C18)
     Var        name                                   <<>>
     Tuple/List                         n              <<x1..xn>>
     Dict                               n              <<key1, x1, .., keyn, xn>>  keys are Str
     TupIdx                             n = index      <<tuple>>
     DictGet    key                                    <<dict>>
     Math       function                n = #args      <<args>>
     UserFn     function                n = #args      <<args>>
     Root       tree         file       n = #names     <<src, name1..namen>>       explicit AsROOTTTree
*)
EXTENDS Values, FiniteSets, Fns

----------------------------------------------------------------------------
(* Environments: innermost binding last, looked up from the end (proper shadowing) *)
Bind(env, x, v) == Append(env, [x |-> x, v |-> v])
RECURSIVE LookupFrom(_, _, _)
LookupFrom(env, x, i) == IF i = 0 THEN Undef("unbound:" \o x)
                         ELSE IF env[i].x = x THEN env[i].v ELSE LookupFrom(env, x, i - 1)
Lookup(env, x) == LookupFrom(env, x, Len(env))

----------------------------------------------------------------------------
(* Events.  ev.store : "<collection>/<bank>" -> <<object ids>>   (absent key = bank not in the event)
            ev.attr  : "<id>.<method>"       -> value                                               *)
StoreKey(coll, bank) == coll \o "/" \o bank
AttrKey(id, m) == ToString(id) \o "." \o m

HasBank(ev, coll, bank) == StoreKey(coll, bank) \in DOMAIN ev.store
BankObjs(ev, coll, bank) == LET ids == ev.store[StoreKey(coll, bank)] IN
                            SeqV([i \in 1..Len(ids) |-> Obj(ids[i])])
Attr(ev, o, m) == IF o.id = 0 THEN Fault("null_deref")
                  ELSE IF AttrKey(o.id, m) \in DOMAIN ev.attr THEN ev.attr[AttrKey(o.id, m)]
                  ELSE Undef("no_attr:" \o AttrKey(o.id, m))

----------------------------------------------------------------------------
(* Reference functions whose values TLC cannot compute (sin, exp, ...) come from a table
   produced at check time from the C library function of the documented name:
   MathTable["<fn>(<n1>/<d1>,<n2>/<d2>)"] = [n, d] scaled.  See C12.                          *)
CONSTANT MathTable

ArgKey(x) == ToString(x.n) \o "/" \o ToString(x.d)
RECURSIVE ArgsKey(_, _)
ArgsKey(args, i) == IF i > Len(args) THEN ""
                    ELSE (IF i > 1 THEN "," ELSE "") \o ArgKey(args[i]) \o ArgsKey(args, i + 1)
MathKey(f, args) == f \o "(" \o ArgsKey(args, 1) \o ")"

MathApply(f, args) ==
  IF AnyBad(args) THEN FirstBad(args)
  ELSE LET key == MathKey(f, args) IN
       IF key \in DOMAIN MathTable
       THEN LET e == MathTable[key] IN
            IF e.f = "ok" THEN Norm("double", e.n, e.d) ELSE Undef("math_nonfinite")
       ELSE Undef("math_no_entry")

----------------------------------------------------------------------------
(* C++ functions supplied through metadata: FnMeaning(id) names the function's known meaning
   (the table lives in Universe.tla; method style: the receiver is the first argument)        *)
FnMeaning(id) == IF \E i \in DOMAIN UserFns : UserFns[i].id = id THEN FnById(id).meaning ELSE "unknown"
D10 == Num("double", 10, 1)
UserApply(id, args, ev) ==
  IF AnyBad(args) THEN FirstBad(args)
  ELSE LET m == FnMeaning(id) IN
       CASE m = "lin2"  -> PyAdd(PyMul(D10, args[1]), args[2])
         [] m = "lin3"  -> PyAdd(PyAdd(PyMul(Num("double", 100, 1), args[1]), PyMul(D10, args[2])), args[3])
         [] m = "inc"   -> PyAdd(args[1], Num("double", 1, 1))
         [] m = "lit"   -> PyAdd(PyMul(Num("double", 1, 2), args[1]), PyMul(Num("double", 1, 1000), args[2]))
         [] m = "twice" -> PyMul(Num("double", 2, 1), args[1])
         [] m = "meth"  -> LET pt == Attr(ev, args[1], "pt") IN
                           IF Bad(pt) THEN pt ELSE PyAdd(PyMul(Num("double", 2, 1), pt), args[2])
         [] m = "pair"  -> SeqV(<<PyMul(Num("double", 1, 1), args[1]), PyMul(Num("double", 1, 1), args[2])>>)
         [] OTHER -> Undef("unknown_function:" \o id)

----------------------------------------------------------------------------
(* Denotation *)
RECURSIVE Denote(_, _, _)
RECURSIVE FilterFrom(_, _, _)
RECURSIVE FlattenFrom(_, _)
RECURSIVE FoldAgg(_, _, _, _, _, _, _)
RECURSIVE FoldNum(_, _, _, _)
RECURSIVE BoolChain(_, _, _, _, _)

\* keep s[i] where p[i] is true (by need: a bad element that is filtered out does not matter);
\* an element whose predicate is bad stays, as that bad value
\* an element with a bad VALUE that the predicate (not looking at it) rejects: whether computing that value
\* was attempted is not fixed by the properties - the event is out of scope (strict undef)
FilterFrom(s, p, i) ==
  IF i > Len(s) THEN <<>>
  ELSE LET rest == FilterFrom(s, p, i + 1) IN
       IF StrictBad(s[i]) THEN <<s[i]>> \o rest
       ELSE IF Bad(p[i]) THEN <<Strict(p[i])>> \o rest
       ELSE IF Truth(p[i]) THEN <<s[i]>> \o rest
       ELSE IF Bad(s[i]) THEN <<Strict(Undef("bad_value_filtered_out"))>> \o rest
       ELSE rest

\* concatenate a sequence of seq values; a bad inner sequence stays as one bad element - a STRICT one: how many
\* elements it would have contributed is undecided, so no later step can ignore it
FlattenFrom(s, i) ==
  IF i > Len(s) THEN <<>>
  ELSE IF Bad(s[i]) THEN <<Strict(s[i])>> \o FlattenFrom(s, i + 1)
  ELSE s[i].v \o FlattenFrom(s, i + 1)

\* Sum / Min / Max over good numeric elements, i from 2
FoldNum(fn, s, i, acc) ==
  IF i > Len(s) THEN acc
  ELSE FoldNum(fn, s, i + 1,
               CASE fn = "Sum" -> PyAdd(acc, s[i])
                 [] fn = "Min" -> IF Lt(s[i], acc) THEN s[i] ELSE acc
                 [] fn = "Max" -> IF Lt(acc, s[i]) THEN s[i] ELSE acc)

\* a sequence value is consumed completely: its first bad element decides
Force(sv) == IF Bad(sv) THEN sv
             ELSE IF AnyBad(sv.v) THEN FirstBad(sv.v) ELSE sv

FoldAgg(body, pa, pv, s, i, acc, ctx) ==
  IF i > Len(s) \/ Bad(acc) THEN acc
  ELSE FoldAgg(body, pa, pv, s, i + 1,
               Denote(body, Bind(Bind(ctx.env, pa, acc), pv, s[i]), ctx.ev), ctx)

\* lazy and/or: operands after the deciding one are not evaluated
BoolChain(isAnd, ch, i, env, ev) ==
  LET v == Denote(ch[i], env, ev) IN
  IF Bad(v) THEN v
  ELSE IF i = Len(ch) THEN BoolV(Truth(v))
  ELSE IF isAnd /\ ~Truth(v) THEN BoolV(FALSE)
  ELSE IF ~isAnd /\ Truth(v) THEN BoolV(TRUE)
  ELSE BoolChain(isAnd, ch, i + 1, env, ev)

\* a parameter bound to a bad value: if the body looks at it the bad value comes out; if it does not, whether
\* the value was ever computed is not fixed by the properties (a translator may evaluate eagerly or by need)
ByNeed(x, r) == IF Bad(x) /\ ~Bad(r) THEN Undef("bad_value_never_used") ELSE r

Denote(q, env, ev) ==
  CASE q.k = "DS" -> SeqV(<<EvV>>)
    [] q.k = "Var" -> Lookup(env, q.a)
    [] q.k = "Const" -> Num(q.a, q.n, q.d)
    [] q.k = "Str" -> StrV(q.a)
    \* C18: a numeric literal carried as its exact text (too wide for TLC's integers, or a float
    \* in Python's repr); its value IS that text
    [] q.k = "Lit" -> [t |-> "lit", s |-> q.b]
    [] q.k = "Coll" ->
         IF HasBank(ev, q.a, q.b) THEN BankObjs(ev, q.a, q.b) ELSE Fault("retrieve_failed")
    [] q.k = "Single" ->       \* a singleton collection: the one object of the bank
         IF HasBank(ev, q.a, q.b) /\ Len(ev.store[StoreKey(q.a, q.b)]) = 1
         THEN Obj(ev.store[StoreKey(q.a, q.b)][1]) ELSE Fault("retrieve_failed")
    [] q.k = "Meth" ->
         LET r == Denote(q.ch[1], env, ev) IN
         IF Bad(r) THEN r ELSE Attr(ev, r, q.a)
    [] q.k = "Select" ->
         LET s == Denote(q.ch[1], env, ev) IN
         IF Bad(s) THEN s
         \* parameters are bound by need: a bad element only matters if the body uses it
         ELSE SeqV([i \in 1..Len(s.v) |-> IF StrictBad(s.v[i]) THEN s.v[i]
                                            ELSE ByNeed(s.v[i], Denote(q.ch[2], Bind(env, q.a, s.v[i]), ev))])
    [] q.k = "Where" ->
         LET s == Denote(q.ch[1], env, ev) IN
         IF Bad(s) THEN s
         ELSE LET p == [i \in 1..Len(s.v) |-> IF StrictBad(s.v[i]) THEN s.v[i]
                                               ELSE Denote(q.ch[2], Bind(env, q.a, s.v[i]), ev)]
              IN SeqV(FilterFrom(s.v, p, 1))
    [] q.k = "SelectMany" ->
         LET s == Denote(q.ch[1], env, ev) IN
         IF Bad(s) THEN s
         ELSE SeqV(FlattenFrom([i \in 1..Len(s.v) |-> IF StrictBad(s.v[i]) THEN s.v[i]
                                                        ELSE ByNeed(s.v[i], Denote(q.ch[2], Bind(env, q.a, s.v[i]), ev))], 1))
    [] q.k = "First" ->
         LET s == Denote(q.ch[1], env, ev) IN
         IF Bad(s) THEN s
         ELSE IF Len(s.v) = 0 THEN Fault("first_empty")
         ELSE IF Bad(s.v[1]) THEN s.v[1]
         \* whether elements after the first are evaluated is not fixed by the properties
         ELSE IF AnyBad(s.v) THEN Undef("lazy_first")
         ELSE s.v[1]
    [] q.k = "Count" ->
         LET s == Denote(q.ch[1], env, ev) IN
         IF Bad(s) THEN s
         \* an element whose existence is undecided makes the count itself bad; a bad element
         \* VALUE need not be looked at by Count (whether it is, the properties do not say)
         ELSE IF \E i \in DOMAIN s.v : StrictBad(s.v[i]) THEN FirstBad(SelectSeq(s.v, StrictBad))
         ELSE IF AnyBad(s.v) THEN (IF \E i \in DOMAIN s.v : IsUndef(s.v[i]) THEN FirstBad(s.v)
                                   ELSE Undef("lazy_count"))
         ELSE Num("int", Len(s.v), 1)
    [] q.k \in {"Sum", "Min", "Max"} ->
         LET s == Force(Denote(q.ch[1], env, ev)) IN
         IF Bad(s) THEN s
         ELSE IF Len(s.v) = 0 THEN (IF q.k = "Sum" THEN Num("int", 0, 1) ELSE Undef("minmax_empty"))
         ELSE FoldNum(q.k, s.v, 2, PyPos(s.v[1]))
    [] q.k = "Aggregate" ->
         LET s == Force(Denote(q.ch[1], env, ev))
             seed == Denote(q.ch[2], env, ev) IN
         IF Bad(s) THEN s ELSE IF Bad(seed) THEN seed
         ELSE FoldAgg(q.ch[3], q.a, q.b, s.v, 1, seed, [env |-> env, ev |-> ev])
    [] q.k = "Range" ->
         LET lo == Denote(q.ch[1], env, ev)
             hi == Denote(q.ch[2], env, ev) IN
         IF Bad(lo) \/ Bad(hi) THEN Worse(lo, hi)
         ELSE IF ~IsIntVal(lo) \/ ~IsIntVal(hi) THEN Undef("range_nonint")
         ELSE IF hi.n <= lo.n THEN SeqV(<<>>)
         ELSE SeqV([i \in 1..(hi.n - lo.n) |-> Num("int", lo.n + i - 1, 1)])
    [] q.k = "Idx" ->
         LET s == Denote(q.ch[1], env, ev)
             i == Denote(q.ch[2], env, ev) IN
         IF Bad(s) \/ Bad(i) THEN Worse(s, i)
         ELSE IF ~IsIntVal(i) \/ i.n < 0 THEN Undef("index_domain")
         ELSE IF i.n >= Len(s.v) THEN Fault("index_range")
         ELSE s.v[i.n + 1]
    [] q.k = "Bin" -> Arith(q.a, Denote(q.ch[1], env, ev), Denote(q.ch[2], env, ev))
    [] q.k = "Cmp" ->
         LET x == Denote(q.ch[1], env, ev)
             y == Denote(q.ch[2], env, ev) IN
         IF Bad(x) \/ Bad(y) THEN Worse(x, y) ELSE PyCmp(q.a, x, y)
    [] q.k = "Un" ->
         LET x == Denote(q.ch[1], env, ev) IN
         IF Bad(x) THEN x
         ELSE (CASE q.a = "-" -> PyNeg(x) [] q.a = "+" -> PyPos(x) [] q.a = "not" -> PyNot(x))
    [] q.k = "And" -> BoolChain(TRUE, q.ch, 1, env, ev)
    [] q.k = "Or" -> BoolChain(FALSE, q.ch, 1, env, ev)
    [] q.k = "If" ->
         LET c == Denote(q.ch[1], env, ev) IN
         IF Bad(c) THEN c
         ELSE IF Truth(c) THEN Denote(q.ch[2], env, ev) ELSE Denote(q.ch[3], env, ev)
    [] q.k \in {"Tuple", "List"} -> TupV([i \in 1..q.n |-> Denote(q.ch[i], env, ev)])
    [] q.k = "Dict" ->
         [t |-> "dict", keys |-> [i \in 1..q.n |-> q.ch[2 * i - 1].a],
                        v |-> [i \in 1..q.n |-> Denote(q.ch[2 * i], env, ev)]]
    [] q.k = "TupIdx" ->
         LET x == Denote(q.ch[1], env, ev) IN
         IF Bad(x) THEN x ELSE x.v[q.n + 1]
    [] q.k = "DictGet" ->
         LET x == Denote(q.ch[1], env, ev) IN
         IF Bad(x) THEN x ELSE x.v[CHOOSE i \in DOMAIN x.keys : x.keys[i] = q.a]
    \* a lambda applied on the spot; the argument is bound by need like every other parameter
    [] q.k = "Let" -> LET x == Denote(q.ch[1], env, ev) IN ByNeed(x, Denote(q.ch[2], Bind(env, q.a, x), ev))
    [] q.k = "NonNull" -> LET r == Denote(q.ch[1], env, ev) IN IF Bad(r) THEN r ELSE BoolV(r.id # 0)
    [] q.k = "Math" -> MathApply(q.a, [i \in 1..q.n |-> Denote(q.ch[i], env, ev)])
    \* C10: enum Color of class A (Red = 0, Blue = 1; q.n = index of the value named in the query):
    \* EnumCmp  recv.color() == <Ns>.Color.<value>;   EnumArg  recv.colorIs(<Ns>.Color.<value>)
    [] q.k \in {"EnumCmp", "EnumArg"} ->
         LET r == Denote(q.ch[1], env, ev) IN
         IF Bad(r) THEN r
         ELSE LET c == Attr(ev, r, "color") IN
              IF Bad(c) THEN c
              ELSE IF q.k = "EnumCmp" THEN BoolV(c.n = q.n /\ c.d = 1)
              ELSE Num("int", IF c.n = q.n /\ c.d = 1 THEN 1 ELSE 0, 1)
    [] q.k = "UserFn" -> UserApply(q.a, [i \in 1..Len(q.ch) |-> Denote(q.ch[i], env, ev)], ev)
    [] q.k \in {"Root", "Meta"} -> Denote(q.ch[1], env, ev)     \* Meta: a MetaData call, transparent
    [] OTHER -> Undef("no_denotation:" \o q.k)

----------------------------------------------------------------------------
(* Rows.  The denotation of a whole query is a sequence; each element is one row;
   a row is split into cells: tuple/list components, dict values, or the value itself.
   A cell is a scalar, a sequence of scalars, or a sequence of sequences (consumed completely). *)
RECURSIVE ForceDeep(_)
ForceDeep(v) ==
  IF Bad(v) THEN v
  ELSE IF v.t \in {"seq", "tup", "dict"}
  THEN LET inner == [i \in 1..Len(v.v) |-> ForceDeep(v.v[i])] IN
       IF AnyBad(inner) THEN FirstBad(inner) ELSE v
  ELSE v

RowCells(r) == IF r.t \in {"tup", "dict"} THEN r.v ELSE <<r>>

\* rows of the event, or a bad value (fault: the job must fail on this event; undef: skip it)
Rows(q, ev) ==
  LET top == Denote(q, <<>>, ev) IN
  IF Bad(top) THEN top
  ELSE LET forced == [i \in 1..Len(top.v) |-> ForceDeep(top.v[i])] IN
       IF AnyBad(forced) THEN FirstBad(forced)
       ELSE SeqV([i \in 1..Len(top.v) |-> RowCells(top.v[i])])

RECURSIVE CellClose(_, _)
\* obs: logged cell [k |-> "s" scalar | "v" vector, s, f, v |-> <<cells>>]; exp: expected value
CellClose(obs, exp) ==
  IF exp.t = "lit" THEN obs.k = "s" /\ "r" \in DOMAIN obs /\ obs.r = exp.s
  ELSE IF exp.t = "num" THEN obs.k = "s" /\ CloseNum(obs, exp)
  ELSE IF exp.t = "seq"
  THEN /\ obs.k = "v"
       /\ Len(obs.v) = Len(exp.v)
       /\ \A i \in 1..Len(exp.v) : CellClose(obs.v[i], exp.v[i])
  ELSE FALSE

RowClose(obsRow, expRow) ==
  /\ Len(obsRow) = Len(expRow)
  /\ \A c \in 1..Len(expRow) : CellClose(obsRow[c], expRow[c])

RowsClose(obsRows, exp) ==
  /\ Len(obsRows) = Len(exp.v)
  /\ \A r \in 1..Len(exp.v) : RowClose(obsRows[r], exp.v[r])

----------------------------------------------------------------------------
(* Static types.
     [t |-> "num", ks |-> set of acceptable C++ kinds]   ks is a set because the properties
              leave some widths open ("at least as wide as", "floating")
     [t |-> "obj", c |-> class]   [t |-> "seq", e |-> type]   [t |-> "tup", v |-> <<types>>]
     [t |-> "dict", keys, v]      [t |-> "ev"]   [t |-> "str"]
   Decls: "<class>.<method>" -> type  for declared methods; undeclared numeric methods are double.
   CollClass: collection name -> element class.                                                *)
NumT(ks) == [t |-> "num", ks |-> ks]
ObjT(c) == [t |-> "obj", c |-> c]
SeqT(e) == [t |-> "seq", e |-> e]
Floating == {"float", "double"}
AtLeast(ks) == LET r == CHOOSE m \in {Rank(k) : k \in ks} : \A k \in ks : Rank(k) >= m IN
               {k \in {"int", "float", "double"} : Rank(k) >= r}
JoinKs(a, b) == {Wider(x, y) : x \in a, y \in b}

TBind(tenv, x, ty) == Append(tenv, [x |-> x, v |-> ty])

RECURSIVE TypeOf(_, _, _)
TypeOf(q, tenv, sig) ==
  CASE q.k = "DS" -> SeqT([t |-> "ev"])
    [] q.k = "Var" -> Lookup(tenv, q.a)
    [] q.k = "Const" -> NumT({q.a})
    [] q.k = "Str" -> [t |-> "str"]
    [] q.k = "Lit" -> IF q.a = "float" THEN NumT({"double"})
                      ELSE IF q.a = "int" THEN NumT({"int"})
                      ELSE IF q.a = "bool" THEN NumT({"bool"})
                      ELSE NumT({"int", "long", "long long", "unsigned long", "unsigned long long", "int64_t", "uint64_t"})
    [] q.k = "Coll" -> SeqT(ObjT(sig.collClass[q.a]))
    [] q.k = "Single" -> ObjT(sig.collClass[q.a])
    [] q.k = "Meth" ->
         LET r == TypeOf(q.ch[1], tenv, sig)
             key == r.c \o "." \o q.a IN
         IF key \in DOMAIN sig.decls THEN sig.decls[key] ELSE NumT({"double"})
    [] q.k = "Select" ->
         LET s == TypeOf(q.ch[1], tenv, sig) IN SeqT(TypeOf(q.ch[2], TBind(tenv, q.a, s.e), sig))
    [] q.k = "Where" -> TypeOf(q.ch[1], tenv, sig)
    [] q.k = "SelectMany" ->
         LET s == TypeOf(q.ch[1], tenv, sig) IN TypeOf(q.ch[2], TBind(tenv, q.a, s.e), sig)
    [] q.k = "First" -> TypeOf(q.ch[1], tenv, sig).e
    [] q.k = "Count" -> NumT({"int"})
    [] q.k \in {"Sum", "Min", "Max"} -> NumT(AtLeast(TypeOf(q.ch[1], tenv, sig).e.ks))
    [] q.k = "Aggregate" ->
         LET s == TypeOf(q.ch[1], tenv, sig)
             seed == TypeOf(q.ch[2], tenv, sig)
             body == TypeOf(q.ch[3], TBind(TBind(tenv, q.a, seed), q.b, s.e), sig) IN
         NumT(AtLeast(JoinKs(seed.ks, body.ks)))
    [] q.k = "Range" -> SeqT(NumT({"int"}))
    [] q.k = "Idx" -> TypeOf(q.ch[1], tenv, sig).e
    [] q.k = "Bin" ->
         LET x == TypeOf(q.ch[1], tenv, sig)
             y == TypeOf(q.ch[2], tenv, sig) IN
         IF q.a \in {"/", "**"} THEN NumT({"double"}) ELSE NumT(JoinKs(x.ks, y.ks))
    [] q.k = "Cmp" -> NumT({"bool"})
    [] q.k = "Un" -> IF q.a = "not" THEN NumT({"bool"})
                     ELSE NumT({ArithKind(k) : k \in TypeOf(q.ch[1], tenv, sig).ks})
    [] q.k \in {"And", "Or"} -> NumT({"bool"})
    [] q.k = "If" -> NumT(Floating)
    [] q.k \in {"Tuple", "List"} -> [t |-> "tup", v |-> [i \in 1..q.n |-> TypeOf(q.ch[i], tenv, sig)]]
    [] q.k = "Dict" -> [t |-> "dict", keys |-> [i \in 1..q.n |-> q.ch[2 * i - 1].a],
                                      v |-> [i \in 1..q.n |-> TypeOf(q.ch[2 * i], tenv, sig)]]
    [] q.k = "TupIdx" -> TypeOf(q.ch[1], tenv, sig).v[q.n + 1]
    [] q.k = "DictGet" -> LET x == TypeOf(q.ch[1], tenv, sig) IN
                          x.v[CHOOSE i \in DOMAIN x.keys : x.keys[i] = q.a]
    [] q.k = "Let" -> TypeOf(q.ch[2], TBind(tenv, q.a, TypeOf(q.ch[1], tenv, sig)), sig)
    [] q.k = "NonNull" -> NumT({"bool"})
    [] q.k = "Math" -> NumT({"double"})
    [] q.k = "EnumCmp" -> NumT({"bool"})
    [] q.k = "EnumArg" -> NumT({"int"})
    [] q.k = "UserFn" -> IF FnMeaning(q.a) = "pair" THEN SeqT(NumT({"double"})) ELSE NumT({"double"})
    [] q.k \in {"Root", "Meta"} -> TypeOf(q.ch[1], tenv, sig)
    [] OTHER -> [t |-> "unknown"]

\* C10: does the query call a method that has no declaration (then a warning must be logged,
\* and only then)?  Walks the term with the same typing environment as TypeOf.
RECURSIVE UndeclaredUse(_, _, _)
UndeclaredUse(q, tenv, sig) ==
  \/ /\ q.k = "Meth"
     /\ LET r == TypeOf(q.ch[1], tenv, sig) IN r.t = "obj" /\ (r.c \o "." \o q.a) \notin sig.declared
  \/ IF q.k \in {"Select", "Where", "SelectMany"}
     THEN \/ UndeclaredUse(q.ch[1], tenv, sig)
          \/ UndeclaredUse(q.ch[2], TBind(tenv, q.a, TypeOf(q.ch[1], tenv, sig).e), sig)
     ELSE IF q.k = "Aggregate"
     THEN \/ UndeclaredUse(q.ch[1], tenv, sig) \/ UndeclaredUse(q.ch[2], tenv, sig)
          \/ UndeclaredUse(q.ch[3], TBind(TBind(tenv, q.a, TypeOf(q.ch[2], tenv, sig)), q.b, TypeOf(q.ch[1], tenv, sig).e), sig)
     ELSE \E i \in DOMAIN q.ch : UndeclaredUse(q.ch[i], tenv, sig)

RECURSIVE OccursV(_, _)
\* free occurrences of variable x in q
OccursV(q, x) ==
  IF q.k = "Var" THEN (IF q.a = x THEN 1 ELSE 0)
  ELSE LET RECURSIVE Sm(_)
           Sm(i) == IF i > Len(q.ch) THEN 0
                    ELSE (IF (q.k \in {"Select", "SelectMany", "Where", "Let"} /\ i = 2 /\ q.a = x)
                             \/ (q.k = "Aggregate" /\ i = 3 /\ x \in {q.a, q.b})
                          THEN 0 ELSE OccursV(q.ch[i], x)) + Sm(i + 1)
       IN Sm(1)

\* the same, restricted to calls whose value is used by the rest of the query (u): a call in dead
\* code (elements of a sequence that is only counted, a Select body replaced by a constant later)
\* may never be translated, so no warning can be demanded for it
RECURSIVE LiveUndeclared(_, _, _, _)
LiveUndeclared(q, tenv, sig, u) ==
  \/ /\ u /\ q.k = "Meth"
     /\ LET r == TypeOf(q.ch[1], tenv, sig) IN r.t = "obj" /\ (r.c \o "." \o q.a) \notin sig.declared
  \/ IF q.k = "Select"
     THEN \/ LiveUndeclared(q.ch[1], tenv, sig, u /\ OccursV(q.ch[2], q.a) > 0)
          \/ LiveUndeclared(q.ch[2], TBind(tenv, q.a, TypeOf(q.ch[1], tenv, sig).e), sig, u)
     ELSE IF q.k = "Where"
     THEN \/ LiveUndeclared(q.ch[1], tenv, sig, u \/ OccursV(q.ch[2], q.a) > 0)
          \/ LiveUndeclared(q.ch[2], TBind(tenv, q.a, TypeOf(q.ch[1], tenv, sig).e), sig, TRUE)
     ELSE IF q.k = "SelectMany"
     THEN \/ LiveUndeclared(q.ch[1], tenv, sig, OccursV(q.ch[2], q.a) > 0)
          \/ LiveUndeclared(q.ch[2], TBind(tenv, q.a, TypeOf(q.ch[1], tenv, sig).e), sig, u)
     ELSE IF q.k = "Count" THEN LiveUndeclared(q.ch[1], tenv, sig, FALSE)
     ELSE IF q.k = "Aggregate"
     THEN \/ LiveUndeclared(q.ch[1], tenv, sig, TRUE) \/ LiveUndeclared(q.ch[2], tenv, sig, TRUE)
          \/ LiveUndeclared(q.ch[3], TBind(TBind(tenv, q.a, TypeOf(q.ch[2], tenv, sig)), q.b, TypeOf(q.ch[1], tenv, sig).e), sig, TRUE)
     ELSE \E i \in DOMAIN q.ch : LiveUndeclared(q.ch[i], tenv, sig, TRUE)

----------------------------------------------------------------------------
(* Output schema: what the booked tree must look like, from the final expression alone. *)
RECURSIVE ColType(_)
\* [depth |-> 0..2, ks |-> acceptable element kinds]
ColType(ty) == IF ty.t = "num" THEN [depth |-> 0, ks |-> ty.ks]
               ELSE IF ty.t = "seq" THEN LET c == ColType(ty.e) IN [depth |-> c.depth + 1, ks |-> c.ks]
               ELSE [depth |-> 99, ks |-> {}]

IsRoot(q) == q.k = "Root"
RowType(q, sig) == TypeOf(q, <<>>, sig).e

\* names: exact where the query names them, otherwise only count and distinctness are fixed
Schema(q, sig) ==
  LET rt == RowType(q, sig)
      cols == IF rt.t \in {"tup", "dict"} THEN rt.v ELSE <<rt>>
      names == IF IsRoot(q) THEN [i \in 1..q.n |-> q.ch[i + 1].a]
               ELSE IF rt.t = "dict" THEN rt.keys ELSE <<>>
  IN [cols |-> [i \in 1..Len(cols) |-> ColType(cols[i])],
      named |-> IsRoot(q) \/ rt.t = "dict",
      names |-> names,
      tree |-> IF IsRoot(q) THEN q.a ELSE ""]

\* C++ spelling of a column type as logged by the model tree
RECURSIVE Spell(_, _)
Spell(depth, k) == IF depth = 0 THEN k ELSE "vector<" \o Spell(depth - 1, k) \o ">"
ColOK(loggedType, ct) == \E k \in ct.ks : loggedType = Spell(ct.depth, k)

----------------------------------------------------------------------------
(* Store requests the job may make: exactly the (container type, bank) pairs of its Coll nodes *)
RECURSIVE CollNodes(_)
CollNodes(q) == (IF q.k \in {"Coll", "Single"} THEN {<<q.a, q.b>>} ELSE {})
                \cup UNION {CollNodes(q.ch[i]) : i \in DOMAIN q.ch}
\* a bank named by the query that this event does not have.  Whether a retrieval whose
\* result is never used happens at all is left open by the properties (MAY).
MissingAny(q, ev) == \E p \in CollNodes(q) : ~HasBank(ev, p[1], p[2])
Uses(q, sig) == {<<sig.collType[p[1]], p[2]>> : p \in CollNodes(q)}

=============================================================================
