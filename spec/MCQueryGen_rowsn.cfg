CONSTANTS
  MaxSize = 11
  Prof <- ProfRowsN
  MathTable <- NoTable
  GenBackend = "any"
INIT GInit
NEXT GNext
INVARIANT Export
