CONSTANTS
  MaxSize = 9
  Prof <- ProfSchema
  MathTable <- NoTable
  GenBackend = "any"
INIT GInit
NEXT GNext
INVARIANT Export
