CONSTANTS
  MaxSize = 9
  Prof <- ProfSchema
  MathTable <- NoTable
INIT GInit
NEXT GNext
INVARIANT Export
