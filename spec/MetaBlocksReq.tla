--------------------------- MODULE MetaBlocksReq ---------------------------
(* Required behaviour of job-script block assembly (property C15), as pure
   operators over a block list bl = <<[name, script, deps], ...>>:
   Outcome(bl) says whether the list must be refused (ValueError) and
   ValidScript(out, bl) whether `out` is an admissible emission.            *)
EXTENDS Naturals, Sequences, FiniteSets, TLC

Rng(s) == {s[i] : i \in DOMAIN s}


NamesOf(bl)       == {bl[i].name : i \in DOMAIN bl}
IdxOf(bl, n)      == {i \in DOMAIN bl : bl[i].name = n}
ScriptOf(bl, n)   == bl[CHOOSE i \in IdxOf(bl, n) : TRUE].script
MergedDeps(bl, n) == UNION {Rng(bl[i].deps) : i \in IdxOf(bl, n)}

Conflict(bl) == \E i, j \in DOMAIN bl : bl[i].name = bl[j].name /\ bl[i].script # bl[j].script
Missing(bl)  == \E n \in NamesOf(bl) : ~(MergedDeps(bl, n) \subseteq NamesOf(bl))

\* all orders of the distinct names
Orders(bl) == LET S == NamesOf(bl) IN
              {o \in [1..Cardinality(S) -> S] : \A i, j \in DOMAIN o : i # j => o[i] # o[j]}
Respects(o, bl) == \A i \in DOMAIN o : \A d \in MergedDeps(bl, o[i]) :
                      \E j \in DOMAIN o : j < i /\ o[j] = d
Cyclic(bl) == ~ \E o \in Orders(bl) : Respects(o, bl)

Outcome(bl) == IF Conflict(bl) \/ Missing(bl) \/ Cyclic(bl) THEN "error" ELSE "ok"

RECURSIVE Concat(_, _, _)
Concat(o, bl, i) == IF i > Len(o) THEN <<>> ELSE ScriptOf(bl, o[i]) \o Concat(o, bl, i + 1)

\* each distinct block once, contiguous, in order, after everything it depends on
ValidScript(out, bl) == \E o \in Orders(bl) : Respects(o, bl) /\ Concat(o, bl, 1) = out
=============================================================================
