CONSTANTS
  MaxSize = 7
  Prof <- ProfMathInt
  MathTable <- NoTable
  GenBackend = "any"
INIT GInit
NEXT GNext
INVARIANT Export
