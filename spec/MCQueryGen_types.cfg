CONSTANTS
  MaxSize = 11
  Prof <- ProfTypes
  MathTable <- NoTable
  GenBackend = "any"
INIT GInit
NEXT GNext
INVARIANT Export
