------------------------------- MODULE Runner -------------------------------
(* The Runner machine over the required outcomes of RunnerReq: explores invocation
   sequences on the specification alone, checks design-level properties of the
   required behaviour and exports every sequence for replay with the real scripts. *)
EXTENDS RunnerReq, Json

----------------------------------------------------------------------------
(* the machine, for exploring invocation sequences on the specification alone *)
CONSTANTS MaxLen, PrefixKinds, Ds, Os

VARIABLES built, dest, seq
rvars == <<built, dest, seq>>

Invs(kinds) == [kind : kinds, d : Ds, o : Os]

Nothing == [run |-> 0, inputs |-> <<>>]
RInit == built = "no" /\ dest = [p \in Paths |-> Nothing] /\ seq = <<>>

\* fault-free invocation with a defined outcome
Invoke(inv) ==
  /\ Len(seq) < MaxLen
  /\ (Len(seq) < MaxLen - 1 => inv.kind \in PrefixKinds)
  /\ LET oc == Outcome(inv, "none", built) IN
     \* an invocation whose outcome the property leaves open may only end a sequence
     /\ (oc = "may" => Len(seq) = MaxLen - 1)
     /\ seq' = Append(seq, inv)
     /\ built' = NextBuilt(inv, "none", built, IF oc = "ok" THEN 0 ELSE 1)
     /\ dest' = IF oc = "ok" /\ DoRun(inv)
                THEN [dest EXCEPT ![TargetOf(inv)] = [run |-> Len(seq) + 1, inputs |-> InputsOf(inv)]]
                ELSE dest

RNext == \E inv \in Invs(Kinds) : Invoke(inv)

\* design-level facts about the required behaviour
CompileOnlyIsQuiet == [][\A inv \in Invs({"compile"}) : (seq' = Append(seq, inv)) => dest' = dest]_rvars
OnlyTargetChanges == [][\A inv \in Invs(Kinds) : (seq' = Append(seq, inv)) =>
                          \A p \in Paths : p # TargetOf(inv) => dest'[p] = dest[p]]_rvars
RunNeedsBuild == [][\A inv \in Invs({"run"}) : (seq' = Append(seq, inv) /\ built = "no") => dest' = dest]_rvars
DeliveredIsCurrent == \A p \in Paths : dest[p].run <= Len(seq)

Export == PrintT(<<"SEQ", ToJson(seq)>>)
=============================================================================
