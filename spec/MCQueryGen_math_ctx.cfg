CONSTANTS
  MaxSize = 9
  Prof <- ProfMath
  MathTable <- NoTable
INIT GInit
NEXT GNext
INVARIANT Export
