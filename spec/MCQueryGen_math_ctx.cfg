CONSTANTS
  MaxSize = 9
  Prof <- ProfMath
  MathTable <- NoTable
  GenBackend = "any"
INIT GInit
NEXT GNext
INVARIANT Export
