CONSTANTS
  MaxSize = 13
  Prof <- ProfTuples
  MathTable <- NoTable
  GenBackend = "any"
INIT GInit
NEXT GNext
INVARIANT Export
