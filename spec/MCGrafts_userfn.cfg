CONSTANTS
  MaxSize = 8
  Prof <- ProfUserFn
  MathTable <- NoTable
  GenBackend = "any"
INIT GInit
NEXT GNext
INVARIANT ExportGrafts
