CONSTANTS
  MaxSize = 9
  Prof <- ProfCollZ
  MathTable <- NoTable
  GenBackend = "cms_miniaod"
INIT GInit
NEXT GNext
INVARIANT Export
