CONSTANTS
  MaxSize = 16
  Prof <- ProfArithIf
  MathTable <- NoTable
  GenBackend = "any"
INIT GInit
NEXT GNext
INVARIANT Export
