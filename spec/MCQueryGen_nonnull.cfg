CONSTANTS
  MaxSize = 16
  Prof <- ProfNonNull
  MathTable <- NoTable
  GenBackend = "any"
INIT GInit
NEXT GNext
INVARIANT Export
