CONSTANTS
  MaxSize = 16
  Prof <- ProfUserFnLet
  MathTable <- NoTable
  GenBackend = "any"
INIT GInit
NEXT GNext
INVARIANT Export
