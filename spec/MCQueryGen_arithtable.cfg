CONSTANTS
  MaxSize = 10
  Prof <- ProfArithTable
  MathTable <- NoTable
  GenBackend = "any"
INIT GInit
NEXT GNext
INVARIANT Export
