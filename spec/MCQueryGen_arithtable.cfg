CONSTANTS
  MaxSize = 10
  Prof <- ProfArithTable
  MathTable <- NoTable
INIT GInit
NEXT GNext
INVARIANT Export
