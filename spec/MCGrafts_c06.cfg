CONSTANTS
  MaxSize = 7
  Prof <- ProfCore
  MathTable <- NoTable
  GenBackend = "any"
INIT GInit
NEXT GNext
INVARIANT ExportGrafts
