INIT LInit
NEXT LNext
INVARIANT PreflightBeforeContainer
INVARIANT NothingReturnedOnError
INVARIANT TempRemoved
INVARIANT Export
