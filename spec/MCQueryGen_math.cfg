CONSTANTS
  MaxSize = 8
  Prof <- ProfMath
  MathTable <- NoTable
INIT GInit
NEXT GNext
INVARIANT Export
