CONSTANTS
  MaxSize = 8
  Prof <- ProfMath
  MathTable <- NoTable
  GenBackend = "any"
INIT GInit
NEXT GNext
INVARIANT Export
