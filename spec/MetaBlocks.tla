--------------------------- MODULE MetaBlocks ---------------------------
(* Machine M3, job-script half (property C15).

   A client sends a list of job-script blocks [name, script, deps].  The
   REQUIRED behaviour is given by Outcome / ValidScript below.  The second half
   of the module is a step-by-step model of the emission loop as it is coded in
   common/meta_data.py:generate_script_block (ingest blocks one by one, check
   for missing dependencies, then repeated passes over the insertion-ordered
   table).  TLC checks the coded algorithm against the required behaviour for
   every block list in scope (invariants LoopMeetsSpecOutcome, LoopMeetsSpecScript); the real function is
   bound to the same required behaviour by MetaTrace.tla.                    *)
EXTENDS MetaBlocksReq, SequencesExt, FiniteSetsExt

CONSTANTS Names,      \* block names that may be sent
          Unsent,     \* a name that is never sent (only ever appears as a dependency)
          Scripts,    \* pool of scripts (sequences of lines)
          MaxLen,     \* longest block list
          MaxDeps     \* longest depends_on list (duplicates and self allowed)

DepNames == Names \cup {Unsent}
DepSeqs  == UNION {[1..n -> DepNames] : n \in 0..MaxDeps}
Block    == [name : Names, script : Scripts, deps : DepSeqs]
BlockLists == UNION {[1..n -> Block] : n \in 0..MaxLen}

----------------------------------------------------------------------------
(* The emission loop as coded *)

VARIABLES bl, pc, k, order, lookup, deps, seen, out, emitted, result
vars == <<bl, pc, k, order, lookup, deps, seen, out, emitted, result>>

Init == /\ bl \in BlockLists
        /\ pc = "ingest" /\ k = 1
        /\ order = <<>> /\ lookup = <<>> /\ deps = <<>>
        /\ seen = {} /\ out = <<>> /\ emitted = FALSE /\ result = "none"

Pos(n) == CHOOSE i \in DOMAIN order : order[i] = n

\* for b in blocks: ...
Ingest ==
  /\ pc = "ingest" /\ k <= Len(bl)
  /\ LET b == bl[k] IN
     IF b.name \notin Rng(order)
     THEN /\ order' = Append(order, b.name)
          /\ lookup' = Append(lookup, b.script)
          /\ deps' = Append(deps, Rng(b.deps))
          /\ k' = k + 1
          /\ UNCHANGED <<pc, result>>
     ELSE IF b.script # lookup[Pos(b.name)]
          THEN /\ result' = "error" /\ pc' = "done"
               /\ UNCHANGED <<order, lookup, deps, k>>
          ELSE /\ deps' = [deps EXCEPT ![Pos(b.name)] = @ \cup Rng(b.deps)]
               /\ k' = k + 1
               /\ UNCHANGED <<order, lookup, pc, result>>
  /\ UNCHANGED <<bl, seen, out, emitted>>

\* for name, deps in dependencies.items(): for d in deps: if d not in dependencies: raise
CheckMissing ==
  /\ pc = "ingest" /\ k > Len(bl)
  /\ IF \E i \in DOMAIN order : ~(deps[i] \subseteq Rng(order))
     THEN result' = "error" /\ pc' = "done" /\ k' = k
     ELSE pc' = "pass" /\ k' = 1 /\ UNCHANGED result
  /\ UNCHANGED <<bl, order, lookup, deps, seen, out, emitted>>

\* one iteration of: for j in block_lookup.values()
Scan ==
  /\ pc = "pass" /\ k <= Len(order)
  /\ IF order[k] \notin seen /\ deps[k] \subseteq seen
     THEN /\ out' = out \o lookup[k]
          /\ seen' = seen \cup {order[k]}
          /\ emitted' = TRUE
     ELSE UNCHANGED <<out, seen, emitted>>
  /\ k' = k + 1
  /\ UNCHANGED <<bl, pc, order, lookup, deps, result>>

\* while len(seen_blocks) < len(dependencies): ... if not emitted: raise
EndPass ==
  /\ pc = "pass" /\ k > Len(order)
  /\ IF Cardinality(seen) >= Len(order)
     THEN result' = "ok" /\ pc' = "done" /\ UNCHANGED <<k, emitted>>
     ELSE IF ~emitted /\ Len(order) > 0
          THEN result' = "error" /\ pc' = "done" /\ UNCHANGED <<k, emitted>>
          ELSE k' = 1 /\ emitted' = FALSE /\ UNCHANGED <<pc, result>>
  /\ UNCHANGED <<bl, order, lookup, deps, seen, out>>

Next == Ingest \/ CheckMissing \/ Scan \/ EndPass
Spec == Init /\ [][Next]_vars

LoopMeetsSpecOutcome == pc = "done" => (result = Outcome(bl))
LoopMeetsSpecScript  == (pc = "done" /\ result = "ok") => ValidScript(out, bl)
LoopNeverDrops       == (pc = "done" /\ result = "ok") => seen = NamesOf(bl)
Terminates           == <>(pc = "done")
=============================================================================
