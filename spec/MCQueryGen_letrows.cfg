CONSTANTS
  MaxSize = 19
  Prof <- ProfLetRows
  MathTable <- NoTable
  GenBackend = "any"
INIT GInit
NEXT GNext
INVARIANT Export
