CONSTANTS
  MaxSize = 9
  Prof <- ProfColl
  MathTable <- NoTable
  GenBackend = "cms_aod"
INIT GInit
NEXT GNext
INVARIANT Export
