CONSTANTS
  MaxSize = 12
  Prof <- ProfRowsN
  MathTable <- NoTable
  GenBackend = "any"
INIT GInit
NEXT GNext
INVARIANT Export
