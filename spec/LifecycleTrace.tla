--------------------------- MODULE LifecycleTrace ---------------------------
(* Trace validation for C07 (and, keyed differently, C08): TRACE_FILE is a list of
   records [hid, hlen, probe, digest, outcome, exc]: the normalised package (digest) the
   real code produced for `probe` after history number hid.  The record with hlen = 0
   is the same probe in a fresh process.  OutputIsFunctionOfQuery: every record's digest
   equals the fresh digest of its probe.                                               *)
EXTENDS Naturals, Sequences, TLC, Json, IOUtils

Obs == JsonDeserialize(IOEnv.TRACE_FILE)
N == Len(Obs)
\* (the reference records are found once: a constant, not a search per record)
FreshRecs == {i \in 1..N : Obs[i].hlen = 0}
FreshIdx(p) == CHOOSE i \in FreshRecs : Obs[i].probe = p
HasFresh(p) == \E i \in FreshRecs : Obs[i].probe = p

VARIABLES i, st
Verdict(r) == IF ~HasFresh(r.probe) THEN "NoFreshReference"
              ELSE IF r.digest = Obs[FreshIdx(r.probe)].digest THEN "ok" ELSE "OutputIsFunctionOfQuery"
TInit == i \in 1..N /\ st = "probed"
TNext == /\ st = "probed"
         /\ LET v == Verdict(Obs[i]) IN
            /\ st' = v
            /\ IF v = "ok" THEN TRUE ELSE PrintT(<<"VERDICT", i, v>>)
         /\ UNCHANGED i
=============================================================================
