------------------------------- MODULE Grafts -------------------------------
(* Unsupported constructs grafted into otherwise valid queries (property C09).

   Grafts(q) is the set of terms obtained from q by replacing exactly one sub-term
   by a construct the backend cannot express, at every position where it fits:
     numeric sub-term t      t // 2, t & 1, ~t, 0 < t < 5, t.Count(), t.Select(x: x).Sum()
     aggregate over s        s <op> 2 and 2 <op> s for every arithmetic operator, s.Aggregate(f),
                             s.Aggregate(f0, f), s.Count(1)
     method call r.m()       r itself (a raw object), r <op> 2 (arithmetic on an object),
                             r.getAttribute('m') (ATLAS only)
     First(s)                s.First(lambda x: True)   (a request that must not be dropped)
     v[i]                    v[0:1]
     a C++ function call     f(args) with one argument too many / one too few, and in the other call style
                             (a function invoked like a method, a method like a function); the built-in
                             DeltaR with 5 and with 3 arguments (C09 and C11: "wrong arity or wrong call
                             style are rejected" - a surplus argument that is accepted is silently dropped)
     the dataset             MetaData with an unknown / malformed / foreign declaration
   Every graft must make translation raise (Support = MUST_REJECT).  New node kinds
   (CmpChain, AggOnly, AggFunc, CountExtra, FirstPred, Slice, GetAttr, BadMeta) exist
   only to be rendered; they have no denotation.                                        *)
EXTENDS QueryGen, SequencesExt

T(k, a, n, ch) == [k |-> k, a |-> a, b |-> "", n |-> n, d |-> 1, ch |-> ch]
CI(n) == T("Const", "int", n, <<>>)
VarN(x) == T("Var", x, 0, <<>>)

NumMethodNames == {Methods[i].name : i \in {i \in DOMAIN Methods : Methods[i].ret = "num"}}
IsNumNode(t) == \/ t.k \in {"Bin", "Count", "Sum", "Min", "Max", "Aggregate", "Math", "If", "UserFn"}
                \/ (t.k = "Const" /\ t.a # "bool")
                \/ (t.k = "Meth" /\ t.a \in NumMethodNames)
IsAggNode(t) == t.k \in {"Count", "Sum", "Min", "Max"}
ArithOps == {"+", "-", "*", "/", "%", "**"}
\* a non-number next to a DOUBLE operand (a literal, a method value), on either side: the widest-type
\* selection must look at every operand, whatever comes first
ArithOpsD == {"+", "*", "**"}
CD == T("Const", "double", 3, <<>>)
StrA == T("Str", "a", 0, <<>>)

\* <<how, replacement>> for the sub-term t
Wrappers(t) ==
  (IF IsNumNode(t)
   THEN {<<"floordiv", T("Bin", "//", 0, <<t, CI(2)>>)>>,
         <<"bitand", T("Bin", "&", 0, <<t, CI(1)>>)>>,
         <<"invert", T("Un", "~", 0, <<t>>)>>,
         <<"cmpchain", T("CmpChain", "", 0, <<CI(0), t, CI(5)>>)>>,
         <<"count_of_value", T("Count", "", 0, <<t>>)>>,
         <<"select_of_value", T("Sum", "", 0, <<T("Select", "vx", 0, <<t, VarN("vx")>>)>>)>>,
         <<"builtin_fn_surplus_arg", T("DeltaRN", "", 5, <<t>>)>>,
         <<"builtin_fn_missing_arg", T("DeltaRN", "", 3, <<t>>)>>,
         <<"builtin_fn_as_method", T("DeltaRN", "method", 4, <<t>>)>>}
   ELSE {})
  \cup (IF t.k = "UserFn"
        THEN {<<"userfn_surplus_arg", [t EXCEPT !.n = @ + 1, !.ch = Append(@, CI(2))]>>,
              <<"userfn_missing_arg", [t EXCEPT !.n = @ - 1, !.ch = SubSeq(@, 1, Len(@) - 1)]>>,
              <<"userfn_wrong_style", [t EXCEPT !.b = IF @ = "method" THEN "function" ELSE "method", !.d = 2]>>}
        ELSE {})
  \cup (IF IsAggNode(t)
        THEN {<<"seq_arith_" \o op, T("Bin", op, 0, <<t.ch[1], CI(2)>>)>> : op \in ArithOps}
             \cup {<<"arith_seq_" \o op, T("Bin", op, 0, <<CI(2), t.ch[1]>>)>> : op \in ArithOps}
             \cup {<<"seq_arith_d_" \o op, T("Bin", op, 0, <<t.ch[1], CD>>)>> : op \in ArithOpsD}
             \cup {<<"arith_d_seq_" \o op, T("Bin", op, 0, <<CD, t.ch[1]>>)>> : op \in ArithOpsD}
             \cup {<<"seq_arith", T("Bin", "+", 0, <<t.ch[1], CI(1)>>)>>,
              <<"agg_only", T("AggOnly", "", 0, <<t.ch[1]>>)>>,
              <<"agg_func", T("AggFunc", "", 0, <<t.ch[1]>>)>>,
              <<"count_extra_arg", T("CountExtra", "", 0, <<t.ch[1]>>)>>}
        ELSE {})
  \cup (IF t.k = "Meth" /\ t.a \in NumMethodNames
        THEN {<<"raw_object", t.ch[1]>>, <<"getattribute@atlas", T("GetAttr", t.a, 0, <<t.ch[1]>>)>>}
             \cup {<<"obj_arith_" \o op, T("Bin", op, 0, <<t.ch[1], CI(2)>>)>> : op \in ArithOps}
             \cup {<<"arith_obj_" \o op, T("Bin", op, 0, <<CI(2), t.ch[1]>>)>> : op \in ArithOps}
             \cup {<<"obj_arith_d_" \o op, T("Bin", op, 0, <<t.ch[1], CD>>)>> : op \in ArithOpsD}
             \cup {<<"arith_d_obj_" \o op, T("Bin", op, 0, <<CD, t.ch[1]>>)>> : op \in ArithOpsD}
             \cup {<<"meth_arith_obj_" \o op, T("Bin", op, 0, <<t, t.ch[1]>>)>> : op \in ArithOpsD}
             \cup {<<"str_arith_" \o op, T("Bin", op, 0, <<t, StrA>>)>> : op \in {"+", "*"}}
             \cup {<<"arith_str_" \o op, T("Bin", op, 0, <<StrA, t>>)>> : op \in {"+", "*"}}
        ELSE {})
  \* e.Jets() / e.Jets("a", "b") / e.Jets(1): a collection call with the wrong number or type of arguments (C06, C09)
  \cup (IF t.k = "Coll"
        THEN {<<"collcall_" \o v, T("CollBad", v, 0, <<t>>)>> : v \in {"no_bank", "two_banks", "int_bank"}}
        ELSE {})
  \cup (IF t.k = "First" THEN {<<"first_predicate", T("FirstPred", "", 0, <<t.ch[1]>>)>>} ELSE {})
  \cup (IF t.k = "Idx" THEN {<<"slice", T("Slice", "", 0, <<t.ch[1]>>)>>} ELSE {})
  \cup (IF t.k = "DS"
        THEN {<<"badmeta_" \o m, T("BadMeta", m, 0, <<t>>)>> :
                m \in {"unknown_type", "no_type", "method_missing_keys", "inject_unknown_field", "function_missing_keys",
                       "collection_other_backend", "collection_extra_key", "collection_missing_element",
                       \* a key that only the OTHER experiment's collection declaration knows
                       "collection_foreign_key", "collection_spurious_element",
                       \* two blocks of one name with different content (job scripts exist on ATLAS only)
                       "inject_conflict", "jobscript_conflict@atlas"}}
        ELSE {})

RECURSIVE OccursG(_, _)
\* free occurrences of variable x in q
OccursG(q, x) ==
  IF q.k = "Var" THEN (IF q.a = x THEN 1 ELSE 0)
  ELSE LET RECURSIVE Sm(_)
           Sm(i) == IF i > Len(q.ch) THEN 0
                    ELSE (IF (q.k \in {"Select", "SelectMany", "Where"} /\ i = 2 /\ q.a = x)
                             \/ (q.k = "Aggregate" /\ i = 3 /\ x \in {q.a, q.b})
                          THEN 0 ELSE OccursG(q.ch[i], x)) + Sm(i + 1)
       IN Sm(1)

RECURSIVE GraftsOf(_, _)
(* all <<how, term>> with exactly one sub-term of q replaced.  u says whether the value of q
   (for a sequence: the values of its elements) is used by the rest of the query: a construct
   buried in a value nobody looks at (the elements of a sequence that is only counted, the body
   of a Select whose result is replaced by a constant) is dead code, and whether dead code is
   translated at all is not fixed by the property (MAY) - so nothing is grafted there.          *)
GraftsOf(q, u) ==
  (IF u \/ q.k = "DS" THEN Wrappers(q) ELSE {})
  \cup UNION {{<<g[1], [q EXCEPT !.ch[i] = g[2]]>> :
                g \in GraftsOf(q.ch[i],
                     CASE q.k = "Count" -> FALSE
                       [] q.k = "Select" -> IF i = 2 THEN u ELSE (u /\ OccursG(q.ch[2], q.a) > 0)
                       [] q.k = "Where" -> IF i = 2 THEN TRUE ELSE (u \/ OccursG(q.ch[2], q.a) > 0)
                       [] q.k = "SelectMany" -> IF i = 2 THEN u ELSE OccursG(q.ch[2], q.a) > 0
                       [] OTHER -> TRUE)} : i \in DOMAIN q.ch}

\* the whole query under an explicit AsROOTTTree with the wrong number of column names (one too few - also
\* none at all - and one too many); rows that are dicts are left out (C03: the documentation is silent there)
LabelNames == <<"ca", "cb", "cc", "cd">>
RootWith(q, n) == [k |-> "Root", a |-> "mytree", b |-> "myfile", n |-> n, d |-> 1,
                   ch |-> <<q>> \o [i \in 1..n |-> T("Str", LabelNames[i], 0, <<>>)]]
LabelGrafts(q) ==
  IF q.k = "Root" \/ RowT(q).t = "dict" \/ NCols(q) > 3 THEN {}
  ELSE {<<"labels_too_few", RootWith(q, NCols(q) - 1)>>, <<"labels_too_many", RootWith(q, NCols(q) + 1)>>}

ExportGrafts == Complete =>
   LET q == Parse(toks) IN
   PrintT(<<"CASE", ToJson([q |-> q, support |-> Support(q),
                            grafts |-> SetToSeq({[how |-> g[1], q |-> g[2], support |-> "MUST_REJECT"] :
                                                   g \in GraftsOf(q, TRUE) \cup LabelGrafts(q)})])>>)
=============================================================================
