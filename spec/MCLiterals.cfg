CONSTANT MathTable <- NoTable
INIT LInit
NEXT LNext
INVARIANT Export
