INIT TInit
NEXT TNext
