CONSTANTS
  MaxSize = 12
  Prof <- ProfIntDiv
  MathTable <- NoTable
  GenBackend = "any"
INIT GInit
NEXT GNext
INVARIANT Export
