CONSTANTS
  MaxSize = 14
  Prof <- ProfUserFnM
  MathTable <- NoTable
  GenBackend = "any"
INIT GInit
NEXT GNext
INVARIANT Export
