------------------------------ MODULE Universe ------------------------------
(* The small data model every generated query ranges over, and its realisation on
   the three backends.  Abstract names ("A", "B", "T"; methods pt, eta, n, ...) are
   what terms carry; the Backends table says what they are called in each
   experiment's Python API and C++ data model.  The harness generates both the
   MetaData declarations it attaches to queries and the model C++ classes it
   compiles the emitted code against from this one table.                      *)
EXTENDS Query

\* abstract collections -> element class
CollClass == [A |-> "A", B |-> "B"]
Banks == {"bk1", "bk2"}

\* methods: cls, name, ret: "num"|"obj"|"vecnum"|"vecobj", kind (C++ scalar kind or target class), declared?
Methods == <<
  [cls |-> "A", name |-> "pt",   ret |-> "num",    kind |-> "double", declared |-> FALSE],
  [cls |-> "A", name |-> "eta",  ret |-> "num",    kind |-> "double", declared |-> FALSE],
  [cls |-> "A", name |-> "n",    ret |-> "num",    kind |-> "int",    declared |-> TRUE],
  [cls |-> "A", name |-> "m",    ret |-> "num",    kind |-> "float",  declared |-> TRUE],
  [cls |-> "A", name |-> "ok",   ret |-> "num",    kind |-> "bool",   declared |-> TRUE],
  [cls |-> "A", name |-> "vals", ret |-> "vecnum", kind |-> "float",  declared |-> TRUE],
  [cls |-> "A", name |-> "trks", ret |-> "vecobj", kind |-> "T",      declared |-> TRUE],
  [cls |-> "A", name |-> "link", ret |-> "obj",    kind |-> "A",      declared |-> TRUE],
  [cls |-> "B", name |-> "pt",   ret |-> "num",    kind |-> "double", declared |-> FALSE],
  [cls |-> "B", name |-> "eta",  ret |-> "num",    kind |-> "double", declared |-> FALSE],
  [cls |-> "T", name |-> "pt",   ret |-> "num",    kind |-> "double", declared |-> FALSE],
  [cls |-> "T", name |-> "q",    ret |-> "num",    kind |-> "int",    declared |-> TRUE]
>>

MethodsOf(c, ret) == {i \in DOMAIN Methods : Methods[i].cls = c /\ Methods[i].ret = ret}

MethType(m) == CASE m.ret = "num"    -> NumT({m.kind})
                 [] m.ret = "obj"    -> ObjT(m.kind)
                 [] m.ret = "vecnum" -> SeqT(NumT({m.kind}))
                 [] m.ret = "vecobj" -> SeqT(ObjT(m.kind))

\* "<class>.<method>" -> type, for every method (undeclared numeric ones are double anyway)
Decls == [key \in {Methods[i].cls \o "." \o Methods[i].name : i \in DOMAIN Methods} |->
            LET i == CHOOSE j \in DOMAIN Methods : Methods[j].cls \o "." \o Methods[j].name = key IN
            MethType(Methods[i])]

VecMethodNames == {Methods[i].name : i \in {i \in DOMAIN Methods : Methods[i].ret \in {"vecnum", "vecobj"}}}

(* Which queries the documentation obliges the translator to accept.  A column whose
   expression is a C++ collection value itself (j.vals(), possibly behind identity
   Selects) rather than a sequence built by Select/Where/... is not covered by the
   documentation: MAY.                                                              *)
RECURSIVE StripId(_)
StripId(t) == IF t.k = "Select" /\ t.ch[2].k = "Var" /\ t.ch[2].a = t.a THEN StripId(t.ch[1]) ELSE t
IsVecTerm(t) == LET u == StripId(t) IN u.k = "Meth" /\ u.a \in VecMethodNames
Cells(b) == IF b.k \in {"Tuple", "List"} THEN {b.ch[i] : i \in DOMAIN b.ch}
            ELSE IF b.k = "Dict" THEN {b.ch[2 * i] : i \in 1..b.n} ELSE {b}
RECURSIVE ElemCells(_)
ElemCells(s) == CASE s.k = "Select" -> Cells(s.ch[2])
                  [] s.k = "Where" -> ElemCells(s.ch[1])
                  [] s.k = "SelectMany" -> ElemCells(s.ch[2])
                  [] OTHER -> {}
RECURSIVE ColTerms(_)
ColTerms(q) == CASE q.k = "Select" -> Cells(q.ch[2])
                 [] q.k = "SelectMany" -> ElemCells(q.ch[2])
                 [] q.k \in {"Where", "Root"} -> ColTerms(q.ch[1])
                 [] OTHER -> {}
NCols(q) == LET rt == TypeOf(q, <<>>, [collClass |-> CollClass, collType |-> CollClass, decls |-> Decls]).e IN
            IF rt.t \in {"tup", "dict"} THEN Len(rt.v) ELSE 1
\* a column / label count mismatch in an explicit AsROOTTTree is an error
Support(q) == IF q.k = "Root" /\ q.n # NCols(q.ch[1]) THEN "MUST_REJECT"
              ELSE IF \E c \in ColTerms(q) : IsVecTerm(c) THEN "MAY" ELSE "MUST_ACCEPT"

\* per backend: python collection name, C++ container type, C++ element type, elements held by pointer?
Backends == [
  atlas |-> [
     colls |-> [A |-> [py |-> "Jets",      ctype |-> "xAOD::JetContainer",      header |-> "xAODJet/JetContainer.h"],
                B |-> [py |-> "Electrons", ctype |-> "xAOD::ElectronContainer", header |-> "xAODEgamma/ElectronContainer.h"]],
     classes |-> [A |-> "xAOD::Jet", B |-> "xAOD::Electron", T |-> "xAOD::TrackParticle"],
     elemptr |-> TRUE],
  cms_aod |-> [
     colls |-> [A |-> [py |-> "Muons",        ctype |-> "reco::MuonCollection",        header |-> "DataFormats/MuonReco/interface/Muon.h"],
                B |-> [py |-> "GsfElectrons", ctype |-> "reco::GsfElectronCollection", header |-> "DataFormats/EgammaCandidates/interface/GsfElectron.h"]],
     classes |-> [A |-> "reco::Muon", B |-> "reco::GsfElectron", T |-> "reco::Track"],
     elemptr |-> FALSE],
  cms_miniaod |-> [
     colls |-> [A |-> [py |-> "Muons",     ctype |-> "pat::MuonCollection",     header |-> "DataFormats/PatCandidates/interface/Muon.h"],
                B |-> [py |-> "Electrons", ctype |-> "pat::ElectronCollection", header |-> "DataFormats/PatCandidates/interface/Electron.h"]],
     classes |-> [A |-> "pat::Muon", B |-> "pat::Electron", T |-> "reco::Track"],
     elemptr |-> FALSE]
]

SigFor(backend) == [collClass |-> CollClass,
                    collType |-> [c \in DOMAIN CollClass |-> Backends[backend].colls[c].ctype],
                    decls |-> Decls]

\* how a method's declared return type is spelled in C++ / in the metadata, per backend
CppRet(m, b) ==
  CASE m.ret = "num"    -> m.kind
    [] m.ret = "obj"    -> Backends[b].classes[m.kind] \o "*"
    [] m.ret = "vecnum" -> m.kind
    [] m.ret = "vecobj" -> Backends[b].classes[m.kind] \o (IF Backends[b].elemptr THEN "*" ELSE "")

\* the MetaData declarations attached to every query on backend b (declared methods only)
Declared == SelectSeq(Methods, LAMBDA m : m.declared)
MdFor(b) == [i \in 1..Len(Declared) |->
               LET m == Declared[i] IN
               [metadata_type |-> "add_method_type_info",
                type_string |-> Backends[b].classes[m.cls],
                method_name |-> m.name,
                return_type |-> IF m.ret \in {"num", "obj"} THEN CppRet(m, b) ELSE "",
                return_type_element |-> IF m.ret \in {"vecnum", "vecobj"} THEN CppRet(m, b) ELSE ""]]

BackendNames == {"atlas", "cms_aod", "cms_miniaod"}
UniverseRecord == [methods |-> [i \in 1..Len(Methods) |->
                                  [cls |-> Methods[i].cls, name |-> Methods[i].name, ret |-> Methods[i].ret,
                                   kind |-> Methods[i].kind, declared |-> Methods[i].declared,
                                   cpp |-> [b \in BackendNames |-> CppRet(Methods[i], b)]]],
                   backends |-> Backends,
                   md |-> [b \in BackendNames |-> MdFor(b)],
                   collClass |-> CollClass]
=============================================================================
