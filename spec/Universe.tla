------------------------------ MODULE Universe ------------------------------
(* The small data model every generated query ranges over, and its realisation on
   the three backends.  Abstract names ("A", "B", "T"; methods pt, eta, n, ...) are
   what terms carry; the Backends table says what they are called in each
   experiment's Python API and C++ data model.  The harness generates both the
   MetaData declarations it attaches to queries and the model C++ classes it
   compiles the emitted code against from this one table.                      *)
EXTENDS Query

\* abstract collections -> element class
\* A, B: the two primary collections; X1, X2: further built-in collections; S: a singleton
\* (one object, not a sequence); Z: a collection that only exists when metadata declares it
CollClass == [A |-> "A", B |-> "B", X1 |-> "T", X2 |-> "M", S |-> "I", Z |-> "Z"]
Singletons == {"S"}
Banks == {"bk1", "bk2"}

\* methods: cls, name, ret: "num"|"obj"|"vecnum"|"vecobj", kind (C++ scalar kind or target class), declared?
Methods == <<
  [cls |-> "A", name |-> "pt",   ret |-> "num",    kind |-> "double", declared |-> FALSE, mode |-> "std", deref |-> 0],
  [cls |-> "A", name |-> "eta",  ret |-> "num",    kind |-> "double", declared |-> FALSE, mode |-> "std", deref |-> 0],
  [cls |-> "A", name |-> "a",    ret |-> "num",    kind |-> "double", declared |-> FALSE, mode |-> "std", deref |-> 0],
  [cls |-> "A", name |-> "b",    ret |-> "num",    kind |-> "double", declared |-> FALSE, mode |-> "std", deref |-> 0],
  [cls |-> "A", name |-> "n",    ret |-> "num",    kind |-> "int",    declared |-> TRUE, mode |-> "std", deref |-> 0],
  [cls |-> "A", name |-> "m",    ret |-> "num",    kind |-> "float",  declared |-> TRUE, mode |-> "std", deref |-> 0],
  [cls |-> "A", name |-> "ok",   ret |-> "num",    kind |-> "bool",   declared |-> TRUE, mode |-> "std", deref |-> 0],
  [cls |-> "A", name |-> "vals", ret |-> "vecnum", kind |-> "float",  declared |-> TRUE, mode |-> "std", deref |-> 0],
  [cls |-> "A", name |-> "trks", ret |-> "vecobj", kind |-> "T",      declared |-> TRUE, mode |-> "std", deref |-> 0],
  [cls |-> "A", name |-> "link", ret |-> "obj",    kind |-> "A",      declared |-> TRUE, mode |-> "std", deref |-> 0],
  [cls |-> "B", name |-> "pt",   ret |-> "num",    kind |-> "double", declared |-> FALSE, mode |-> "std", deref |-> 0],
  [cls |-> "B", name |-> "eta",  ret |-> "num",    kind |-> "double", declared |-> FALSE, mode |-> "std", deref |-> 0],
  [cls |-> "T", name |-> "pt",   ret |-> "num",    kind |-> "double", declared |-> FALSE, mode |-> "std", deref |-> 0],
  [cls |-> "T", name |-> "q",    ret |-> "num",    kind |-> "int",    declared |-> TRUE, mode |-> "std", deref |-> 0],
  [cls |-> "M", name |-> "pt",   ret |-> "num",    kind |-> "double", declared |-> FALSE, mode |-> "std", deref |-> 0],
  [cls |-> "I", name |-> "runNumber", ret |-> "num", kind |-> "double", declared |-> FALSE, mode |-> "std", deref |-> 0],
  [cls |-> "Z", name |-> "pt",   ret |-> "num",    kind |-> "double", declared |-> FALSE, mode |-> "std", deref |-> 0],
  \* C10: the signature space (after trks in this list, so that T objects exist when events are built)
  [cls |-> "A", name |-> "tv",     ret |-> "obj",    kind |-> "T",   declared |-> TRUE, mode |-> "byvalue",  deref |-> 0],
  [cls |-> "A", name |-> "tpp",    ret |-> "obj",    kind |-> "T",   declared |-> TRUE, mode |-> "ptr2",     deref |-> 0],
  [cls |-> "A", name |-> "valsp",  ret |-> "vecnum", kind |-> "float", declared |-> TRUE, mode |-> "collptr", deref |-> 0],
  [cls |-> "A", name |-> "tref",   ret |-> "obj",    kind |-> "R1",  declared |-> TRUE, mode |-> "byvalue",  deref |-> 0],
  [cls |-> "A", name |-> "trefref", ret |-> "obj",   kind |-> "R2",  declared |-> TRUE, mode |-> "byvalue",  deref |-> 0],
  \* a method for which the CMS backends carry a BUILT-IN default type (reco::Muon / pat::Muon::isPFMuon -> bool): the
  \* query's own declaration (int) must win over it
  [cls |-> "A", name |-> "isPFMuon", ret |-> "num", kind |-> "int", declared |-> TRUE, mode |-> "std", deref |-> 0],
  \* total indirection 3: a POINTER to a two-level smart reference, a DOUBLE pointer to a one-level one
  [cls |-> "A", name |-> "trefrefp", ret |-> "obj",  kind |-> "R2",  declared |-> TRUE, mode |-> "std",      deref |-> 0],
  [cls |-> "A", name |-> "trefpp", ret |-> "obj",    kind |-> "R1",  declared |-> TRUE, mode |-> "ptr2",     deref |-> 0],
  [cls |-> "A", name |-> "code",   ret |-> "num",    kind |-> "int", declared |-> TRUE, mode |-> "treetype", deref |-> 0],
  [cls |-> "A", name |-> "color",  ret |-> "num",    kind |-> "int", declared |-> TRUE, mode |-> "enum",     deref |-> 0],
  [cls |-> "A", name |-> "colorIs", ret |-> "num",   kind |-> "int", declared |-> TRUE, mode |-> "enumarg",  deref |-> 0],
  \* ATLAS built-ins on jets: getAttributeFloat("momf") -> float, getAttributeVectorFloat("momv") -> vector<double>
  \* (the README's replacement for the templated getAttribute); rendered as such, never declared by metadata
  [cls |-> "A", name |-> "momf", ret |-> "num",    kind |-> "float",  declared |-> FALSE, mode |-> "moment", deref |-> 0],
  [cls |-> "A", name |-> "momv", ret |-> "vecnum", kind |-> "double", declared |-> FALSE, mode |-> "moment", deref |-> 0],
  \* R1 / R2: smart references to a T (one / two extra dereferences to reach its methods)
  [cls |-> "R1", name |-> "q",   ret |-> "num", kind |-> "int",    declared |-> TRUE, mode |-> "std", deref |-> 1],
  [cls |-> "R1", name |-> "pt",  ret |-> "num", kind |-> "double", declared |-> TRUE, mode |-> "std", deref |-> 1],
  [cls |-> "R2", name |-> "q",   ret |-> "num", kind |-> "int",    declared |-> TRUE, mode |-> "std", deref |-> 2]
>>
EnumValues == <<"Red", "Blue">>        \* enum Color inside class A: Red = 0, Blue = 1
EnumIndex(v) == (CHOOSE i \in DOMAIN EnumValues : EnumValues[i] = v) - 1

MethodsOf(c, ret) == {i \in DOMAIN Methods : Methods[i].cls = c /\ Methods[i].ret = ret}

MethType(m) == CASE m.ret = "num"    -> NumT({m.kind})
                 [] m.ret = "obj"    -> ObjT(m.kind)
                 [] m.ret = "vecnum" -> SeqT(NumT({m.kind}))
                 [] m.ret = "vecobj" -> SeqT(ObjT(m.kind))

\* "<class>.<method>" -> type, for every method (undeclared numeric ones are double anyway)
Decls == [key \in {Methods[i].cls \o "." \o Methods[i].name : i \in DOMAIN Methods} |->
            LET i == CHOOSE j \in DOMAIN Methods : Methods[j].cls \o "." \o Methods[j].name = key IN
            MethType(Methods[i])]

VecMethodNames == {Methods[i].name : i \in {i \in DOMAIN Methods : Methods[i].ret \in {"vecnum", "vecobj"}}}

(* Which queries the documentation obliges the translator to accept.  A column whose
   expression is a C++ collection value itself (j.vals(), possibly behind identity
   Selects) rather than a sequence built by Select/Where/... is not covered by the
   documentation: MAY.                                                              *)
RECURSIVE StripId(_)
StripId(t) == IF t.k = "Select" /\ t.ch[2].k = "Var" /\ t.ch[2].a = t.a THEN StripId(t.ch[1])
              ELSE IF t.k = "Let" THEN StripId(t.ch[2]) ELSE t
IsVecTerm(t) == LET u == StripId(t) IN \/ (u.k = "Meth" /\ u.a \in VecMethodNames)
                                        \/ (u.k = "UserFn" /\ FnMeaning(u.a) = "pair")
Cells(b) == IF b.k \in {"Tuple", "List"} THEN {b.ch[i] : i \in DOMAIN b.ch}
            ELSE IF b.k = "Dict" THEN {b.ch[2 * i] : i \in 1..b.n} ELSE {b}
RECURSIVE ElemCells(_)
ElemCells(s) == CASE s.k = "Select" -> Cells(s.ch[2])
                  [] s.k = "Where" -> ElemCells(s.ch[1])
                  [] s.k = "SelectMany" -> ElemCells(s.ch[2])
                  [] OTHER -> {}
RECURSIVE ColTerms(_)
ColTerms(q) == CASE q.k = "Select" -> Cells(q.ch[2])
                 [] q.k = "SelectMany" -> ElemCells(q.ch[2])
                 [] q.k \in {"Where", "Root"} -> ColTerms(q.ch[1])
                 [] OTHER -> {}
RowT(q) == TypeOf(q, <<>>, [collClass |-> CollClass, collType |-> CollClass, decls |-> Decls, declared |-> {}]).e
NCols(q) == LET rt == RowT(q) IN
            IF rt.t \in {"tup", "dict"} THEN Len(rt.v) ELSE 1
\* a column / label count mismatch in an explicit AsROOTTTree is an error
\* arithmetic directly on a value whose declared C++ type is not one of int/float/double/bool
\* (a typedef, an enum): the documentation is silent - MAY; such values are exercised as columns,
\* in comparisons with enum values, and as arguments
OpaqueNames == {Methods[i].name : i \in {i \in DOMAIN Methods : Methods[i].mode \in {"treetype", "enum"}}}
RECURSIVE HasOpaqueArith(_)
HasOpaqueArith(q) ==
  \/ /\ q.k \in {"Bin", "Un", "Cmp", "Math", "If"}
     /\ \E i \in DOMAIN q.ch : q.ch[i].k = "Meth" /\ q.ch[i].a \in OpaqueNames
  \/ /\ q.k \in {"Sum", "Min", "Max", "Aggregate"}
     /\ q.ch[1].k = "Select" /\ q.ch[1].ch[2].k = "Meth" /\ q.ch[1].ch[2].a \in OpaqueNames
  \/ \E i \in DOMAIN q.ch : HasOpaqueArith(q.ch[i])
\* an explicit AsROOTTTree over rows that are dicts: the columns are named "by the dict keys, or by the
\* names given to AsROOTTTree" - with both present the documentation does not say which: MAY
Support(q) == IF q.k = "Root" /\ q.n # NCols(q.ch[1]) THEN "MUST_REJECT"
              ELSE IF q.k = "Root" /\ RowT(q.ch[1]).t = "dict" THEN "MAY"
              ELSE IF HasOpaqueArith(q) THEN "MAY"
              ELSE IF \E c \in ColTerms(q) : IsVecTerm(c) THEN "MAY" ELSE "MUST_ACCEPT"

\* per backend: python collection name, C++ container type, C++ element type, elements held by pointer?
\* per backend: python collection name ("" = the backend has no such collection), C++ container type,
\* the header and (ATLAS) link library the experiment's documentation names for it
Ent(py, ctype, header, lib) == [py |-> py, ctype |-> ctype, header |-> header, lib |-> lib]
NoColl == Ent("", "", "", "")
Backends == [
  atlas |-> [
     colls |-> [A  |-> Ent("Jets",      "xAOD::JetContainer",           "xAODJet/JetContainer.h",                 "xAODJet"),
                B  |-> Ent("Electrons", "xAOD::ElectronContainer",      "xAODEgamma/ElectronContainer.h",         "xAODEgamma"),
                X1 |-> Ent("Tracks",    "xAOD::TrackParticleContainer", "xAODTracking/TrackParticleContainer.h",  "xAODTracking"),
                X2 |-> Ent("Muons",     "xAOD::MuonContainer",          "xAODMuon/MuonContainer.h",               "xAODMuon"),
                S  |-> Ent("EventInfo", "xAOD::EventInfo",              "xAODEventInfo/EventInfo.h",              "xAODEventInfo"),
                Z  |-> Ent("VpZeds",    "vp::ZedContainer",             "vp_zed/ZedContainer.h",                  "vpZedLib")],
     classes |-> [A |-> "xAOD::Jet", B |-> "xAOD::Electron", T |-> "xAOD::TrackParticle", M |-> "xAOD::Muon",
                  I |-> "xAOD::EventInfo", Z |-> "vp::Zed", R1 |-> "vp::TRef", R2 |-> "vp::TRefRef"],
     altA |-> "vp::AltJetContainer",
     elemptr |-> TRUE],
  cms_aod |-> [
     colls |-> [A  |-> Ent("Muons",        "reco::MuonCollection",        "DataFormats/MuonReco/interface/Muon.h", ""),
                B  |-> Ent("GsfElectrons", "reco::GsfElectronCollection", "DataFormats/EgammaCandidates/interface/GsfElectron.h", ""),
                X1 |-> Ent("Tracks",       "reco::TrackCollection",       "DataFormats/TrackReco/interface/Track.h", ""),
                X2 |-> Ent("Vertex",       "reco::VertexCollection",      "DataFormats/VertexReco/interface/Vertex.h", ""),
                S  |-> NoColl,
                Z  |-> Ent("VpZeds",       "vp::ZedCollection",           "vp_zed/ZedCollection.h", "")],
     classes |-> [A |-> "reco::Muon", B |-> "reco::GsfElectron", T |-> "reco::Track", M |-> "reco::Vertex",
                  I |-> "vp::NoInfo", Z |-> "vp::Zed", R1 |-> "vp::TRef", R2 |-> "vp::TRefRef"],
     altA |-> "vp::AltMuonCollection",
     elemptr |-> FALSE],
  cms_miniaod |-> [
     colls |-> [A  |-> Ent("Muons",     "pat::MuonCollection",     "DataFormats/PatCandidates/interface/Muon.h", ""),
                B  |-> Ent("Electrons", "pat::ElectronCollection", "DataFormats/PatCandidates/interface/Electron.h", ""),
                X1 |-> NoColl,
                X2 |-> Ent("Vertex",    "reco::VertexCollection",  "DataFormats/VertexReco/interface/Vertex.h", ""),
                S  |-> NoColl,
                Z  |-> Ent("VpZeds",    "vp::ZedCollection",       "vp_zed/ZedCollection.h", "")],
     classes |-> [A |-> "pat::Muon", B |-> "pat::Electron", T |-> "reco::Track", M |-> "reco::Vertex",
                  I |-> "vp::NoInfo", Z |-> "vp::Zed", R1 |-> "vp::TRef", R2 |-> "vp::TRefRef"],
     altA |-> "vp::AltMuonCollection",
     elemptr |-> FALSE]
]

(* Collections declared through metadata (C06).  A case may carry one declaration variant:
     none       only built-in collections
     fresh_Z    declares the new collection Z (python name VpZeds)
     replace_A  re-declares the built-in python name of A with another container type        *)
\*   both_za / both_az   both declarations in one query, in either order (each call must be
\*                       rewritten with ITS declaration, whichever came last)
DeclVariants == {"none", "fresh_Z", "replace_A", "both_za", "both_az"}
ReplacesA == {"replace_A", "both_za", "both_az"}
CollTypeV(backend, v) == [c \in DOMAIN CollClass |->
                            IF v \in ReplacesA /\ c = "A" THEN Backends[backend].altA ELSE Backends[backend].colls[c].ctype]
LibOf(backend, c) == Backends[backend].colls[c].lib
DeclaredKeys == {Methods[i].cls \o "." \o Methods[i].name : i \in {i \in DOMAIN Methods : Methods[i].declared}}
SigForV(backend, v) == [collClass |-> CollClass, collType |-> CollTypeV(backend, v), decls |-> Decls, declared |-> DeclaredKeys]
SigFor(backend) == [collClass |-> CollClass,
                    collType |-> CollTypeV(backend, "none"),
                    decls |-> Decls, declared |-> DeclaredKeys]

\* how a method's declared return type is spelled in C++ / in the metadata, per backend
CppRet(m, b) ==
  CASE m.mode = "byvalue"  -> Backends[b].classes[m.kind]
    [] m.mode = "ptr2"     -> Backends[b].classes[m.kind] \o "**"
    [] m.mode = "treetype" -> "vp::Code"
    [] m.mode = "enum"     -> Backends[b].classes.A \o "::Color"
    [] m.ret = "num"       -> m.kind
    [] m.ret = "obj"       -> Backends[b].classes[m.kind] \o "*"
    [] m.ret = "vecnum"    -> m.kind
    [] m.ret = "vecobj"    -> Backends[b].classes[m.kind] \o (IF Backends[b].elemptr THEN "*" ELSE "")

\* the MetaData declarations attached to every query on backend b (declared methods only)
Declared == SelectSeq(Methods, LAMBDA m : m.declared)
\* python-dotted namespace that hosts enum Color on backend b ("xAOD.Jet"), and the enum declaration
DotNs(b) == CASE b = "atlas" -> "xAOD.Jet" [] b = "cms_aod" -> "reco.Muon" [] b = "cms_miniaod" -> "pat.Muon"
EnumMd(b) == [metadata_type |-> "define_enum", namespace |-> DotNs(b), name |-> "Color", values |-> EnumValues]

\* base declarations (attached to every query) / the C10 signature space (attached to C10 cases only)
IsBase(m) == m.mode = "std" /\ m.cls \notin {"R1", "R2"} /\ m.kind \notin {"R1", "R2"}
DeclaredBase == SelectSeq(Declared, IsBase)
DeclaredC10 == SelectSeq(Declared, LAMBDA m : ~IsBase(m))
MdOf(ms, b) == [i \in 1..Len(ms) |->
               LET m == ms[i] IN
               [metadata_type |-> "add_method_type_info",
                type_string |-> Backends[b].classes[m.cls],
                method_name |-> m.name,
                return_type |-> IF m.ret \in {"num", "obj"} THEN CppRet(m, b) ELSE "",
                return_type_element |-> IF m.ret \in {"vecnum", "vecobj"} THEN CppRet(m, b) ELSE "",
                return_type_collection |-> IF m.mode = "collptr" THEN "std::vector<" \o m.kind \o ">*" ELSE "",
                tree_type |-> IF m.mode \in {"treetype", "enum"} THEN "int" ELSE "",
                deref_count |-> m.deref]]
MdFor(b) == MdOf(DeclaredBase, b)
Md10For(b) == MdOf(DeclaredC10, b)

FnMd(f, b) == [metadata_type |-> "add_cpp_function", name |-> f.id,
               include_files |-> IF f.include = "" THEN <<>> ELSE <<f.include>>,
               arguments |-> f.params, code |-> FnCode(f, IF Backends[b].elemptr THEN "->" ELSE "."), result_name |-> f.result,
               return_type |-> "double", return_is_collection |-> f.meaning = "pair",
               method_object |-> IF f.style = "method" THEN "obj" ELSE "",
               instance_object |-> IF f.style = "method" THEN Backends[b].classes.A ELSE ""]

BackendNames == {"atlas", "cms_aod", "cms_miniaod"}
CollMdType(b) == CASE b = "atlas" -> "add_atlas_event_collection_info"
                   [] b = "cms_aod" -> "add_cms_aod_event_collection_info"
                   [] b = "cms_miniaod" -> "add_cms_miniaod_event_collection_info"
AltHeader == "vp_alt/AltContainer.h"
\* the collection declarations of the two declaration variants (link_libraries applies to ATLAS only)
CollMd(b, v) ==
  IF v = "fresh_Z"
  THEN [metadata_type |-> CollMdType(b), name |-> Backends[b].colls.Z.py, include_files |-> <<Backends[b].colls.Z.header>>,
        container_type |-> Backends[b].colls.Z.ctype, element_type |-> Backends[b].classes.Z,
        contains_collection |-> TRUE, link_libraries |-> <<Backends[b].colls.Z.lib>>]
  ELSE [metadata_type |-> CollMdType(b), name |-> Backends[b].colls.A.py, include_files |-> <<AltHeader>>,
        container_type |-> Backends[b].altA, element_type |-> Backends[b].classes.A,
        contains_collection |-> TRUE, link_libraries |-> <<"vpAltLib">>]
UniverseRecord == [methods |-> [i \in 1..Len(Methods) |->
                                  [cls |-> Methods[i].cls, name |-> Methods[i].name, ret |-> Methods[i].ret,
                                   kind |-> Methods[i].kind, declared |-> Methods[i].declared,
                                   mode |-> Methods[i].mode, deref |-> Methods[i].deref,
                                   cpp |-> [b \in BackendNames |-> CppRet(Methods[i], b)]]],
                   backends |-> Backends,
                   md |-> [b \in BackendNames |-> MdFor(b)],
                   md10 |-> [b \in BackendNames |-> Md10For(b)],
                   collmd |-> [b \in BackendNames |-> [v \in {"fresh_Z", "replace_A"} |-> CollMd(b, v)]],
                   altHeader |-> AltHeader,
                   enummd |-> [b \in BackendNames |-> EnumMd(b)],
                   dotns |-> [b \in BackendNames |-> DotNs(b)],
                   fnmd |-> [b \in BackendNames |-> [i \in DOMAIN UserFns |-> FnMd(UserFns[i], b)]],
                   collClass |-> CollClass, singletons |-> Singletons]
=============================================================================
