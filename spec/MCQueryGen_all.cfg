CONSTANTS
  MaxSize = 24
  Prof <- ProfAll
  MathTable <- NoTable
  GenBackend = "any"
INIT GInit
NEXT GNext
INVARIANT Export
