------------------------------ MODULE JobTrace ------------------------------
(* Machine M1 (the generated job) and its trace validation.

   REQUIRED behaviour of the job generated for query q (module Query supplies the
   meaning): after Translate and Compile succeed, every job instance Books the tree
   described by Schema(q) and then processes events one at a time; ProcessEvent(e)
   writes exactly Rows(q, e), or fails loudly when Rows(q, e) is a fault, after which
   the instance is dead.  The machine carries NO state from one event to the next:
   that is property C05, by construction of the specification.

   TRACE_FILE holds what was observed from the real translator and from the real
   emitted code running in the model framework:
     [events |-> <<event>>,
      cases  |-> <<[id, backend, q, support,
                    translate |-> [outcome, exc, treename, filename, files, residual],
                    compile   |-> [ok, stage],
                    runs      |-> <<[booked |-> [fault, trees, consumes],
                                     events |-> <<[e, requests, rows, fault]>>]>>]>>]
   Each case is one behaviour  new -> translated -> compiled -> { booked -> event ... } -> done;
   every step is checked against the specification and every failed clause is
   reported (PrintT "VERDICT"); verdicts are total, the run never stops early.        *)
EXTENDS Universe, Json, IOUtils

D == JsonDeserialize(IOEnv.TRACE_FILE)
Cases == D.cases
Events == D.events
MathFile == D.math     \* reference table for C12 (empty otherwise), see Query.tla MathApply

VARIABLES c,       \* case index
          pc,      \* "new" | "translated" | "compiled" | "booked" | "dead" | "done"
          run, pos,
          judged, skipped,   \* events judged / outside the quantified domain
          nfault, nrow       \* vacuity counters: events whose denotation is a fault / has >= 1 row
tvars == <<c, pc, run, pos, judged, skipped, nfault, nrow>>

Case == Cases[c]
Q == Case.q
Sig == SigForV(Case.backend, Case.declv)

Report(clause, r, p) == PrintT(<<"VERDICT", Case.id, clause, r, p>>)
\* evaluate all clauses, report each failing one, always TRUE
RECURSIVE ReportAll(_, _, _)
ReportAll(fails, r, p) == IF fails = {} THEN TRUE
                          ELSE LET f == CHOOSE x \in fails : TRUE IN
                               Report(f, r, p) /\ ReportAll(fails \ {f}, r, p)

----------------------------------------------------------------------------
(* clauses *)

\* Accepts / Refuses: the documented fragment must translate, the unsupported one must raise
TranslateFails ==
  (IF Case.support = "MUST_ACCEPT" /\ Case.translate.outcome # "ok" THEN {"Accepts"} ELSE {})
  \cup (IF Case.support = "MUST_REJECT" /\ Case.translate.outcome = "ok" THEN {"Refuses"} ELSE {})
  \cup (IF Case.translate.outcome = "ok" /\
           (\E i \in DOMAIN Case.translate.files : ~Case.translate.files[i].exists \/ ~Case.translate.files[i].runnable_ok)
        THEN {"PackageComplete"} ELSE {})
  \cup (IF Case.translate.outcome = "ok" /\ Case.translate.residual # <<>> THEN {"NoResidualDirective"} ELSE {})

\* C10: "assuming the method returns double" is logged exactly when an undeclared method is called
WarnFails == IF Case.translate.outcome = "ok" /\ Case.translate.checkwarn
                /\ \/ (Case.translate.nwarn > 0 /\ ~UndeclaredUse(Q, <<>>, Sig))          \* warned about a declared method
                   \/ (Case.translate.nwarn = 0 /\ LiveUndeclared(Q, <<>>, Sig, TRUE))    \* silent about a live undeclared one
             THEN {"WarnsIffUndeclared"} ELSE {}

CompileFails == IF Case.compile.ok THEN {} ELSE {"Compiles"}

\* C06: every collection the query uses brings the link library the experiment documents for it
\* (ATLAS: the rendered package's LINK_LIBRARIES), and - miniAOD - is read through a token that
\* was declared and initialised with exactly its bank's tag; no token for anything else
\* by need: a collection the job really retrieves (its container type shows up in a logged request)
LibsOK(requests) ==
  \A i \in DOMAIN requests :
     \A cl \in DOMAIN CollClass :
        (Sig.collType[cl] = requests[i][1] /\ LibOf("atlas", cl) # "" /\ ~(Case.declv \in ReplacesA /\ cl = "A"))
        => LibOf("atlas", cl) \in {Case.translate.libs[j] : j \in DOMAIN Case.translate.libs}
LibFails == {}
TokenFails(b) ==
  IF Case.backend = "cms_miniaod" /\ b.fault = "none"
     /\ {<<b.consumes[i][1], b.consumes[i][2]>> : i \in DOMAIN b.consumes} # Uses(Q, Sig)
  THEN {"TokensPerUse"} ELSE {}

\* the booked tree against Schema(q) and the returned descriptor
BookFails(b) ==
  IF b.fault # "none" THEN {"BookingFault"}
  ELSE IF Len(b.trees) # 1 THEN {"OneTree"}
  ELSE LET t == b.trees[1]
           sch == Schema(Q, Sig)
           n == Len(sch.cols) IN
    (IF Len(t.branches) # n THEN {"SchemaMatches"}
     ELSE (IF \E i \in 1..n : ~ColOK(t.branches[i].type, sch.cols[i]) THEN {"SchemaMatches"} ELSE {})
          \cup (IF sch.named /\ \E i \in 1..n : t.branches[i].name # sch.names[i] THEN {"SchemaMatches"} ELSE {})
          \cup (IF \E i, j \in 1..n : i # j /\ t.branches[i].name = t.branches[j].name THEN {"SchemaMatches"} ELSE {})
          \cup (IF \E i \in 1..n : t.branches[i].slot # i THEN {"StorageDistinct"} ELSE {}))
    \cup (IF sch.tree # "" /\ t.tree # sch.tree THEN {"SchemaMatches"} ELSE {})
    \cup (IF t.tree # Case.translate.treename THEN {"DescriptorMatches"} ELSE {})

\* one processed event against Rows(q, e)
EventFails(o) ==
  LET want == Rows(Q, Events[o.e])
      uses == Uses(Q, Sig) IN
  IF IsUndef(want) THEN {}
  ELSE (IF IsFault(want)
        THEN (IF o.fault = "none" THEN {"FaultMissed"} ELSE {})
        ELSE (IF o.fault # "none" THEN (IF MissingAny(Q, Events[o.e]) THEN {} ELSE {"SpuriousFault"})
              ELSE IF RowsClose(o.rows, want) THEN {} ELSE {"RowsMatch"}))
       \cup (IF \E i \in DOMAIN o.requests : <<o.requests[i][1], o.requests[i][2]>> \notin uses
             THEN {"RequestsAdmissible"} ELSE {})
       \cup (IF Case.backend = "atlas" /\ ~LibsOK(o.requests) THEN {"LibrariesRequested"} ELSE {})
Skipped(o) == IsUndef(Rows(Q, Events[o.e]))

\* C05, reference-free form.  By construction of the harness run i (i <= number of events)
\* is the one-event sequence <<i>> in a fresh job instance; what the same event yields later
\* in a longer sequence (any position, any predecessors, incl. rejected events) must be
\* exactly what it yields alone.  Nothing here depends on Denote, so it also covers values
\* that come from opaque user C++.
StateFails(o, r) ==
  IF r <= Len(Events) \/ o.e = 0 \/ o.e > Len(Case.runs) THEN {}
  ELSE LET alone == Case.runs[o.e] IN
       IF alone.booked.fault # "none" \/ Len(alone.events) # 1 THEN {}
       ELSE IF alone.events[1].rows = o.rows /\ (alone.events[1].fault = "none") = (o.fault = "none")
            THEN {} ELSE {"StateCarried"}

----------------------------------------------------------------------------
(* the behaviour of one case *)
TInit == /\ c \in 1..Len(Cases) /\ pc = "new" /\ run = 0 /\ pos = 0 /\ judged = 0 /\ skipped = 0
         /\ nfault = 0 /\ nrow = 0

Finish == /\ pc' = "done"
          /\ PrintT(<<"SUMMARY", Case.id, judged, skipped, nfault, nrow>>)
          /\ UNCHANGED <<c, run, pos, judged, skipped, nfault, nrow>>

Translate ==
  /\ pc = "new"
  /\ ReportAll(TranslateFails \cup WarnFails, 0, 0)
  /\ IF Case.translate.outcome = "ok" /\ Case.support # "MUST_REJECT"
     THEN pc' = "translated" /\ UNCHANGED <<c, run, pos, judged, skipped, nfault, nrow>>
     ELSE Finish

Compile ==
  /\ pc = "translated"
  /\ ReportAll(CompileFails \cup LibFails, 0, 0)
  /\ IF Case.compile.ok THEN pc' = "compiled" /\ UNCHANGED <<c, run, pos, judged, skipped, nfault, nrow>> ELSE Finish

NextRun ==
  /\ pc \in {"compiled", "booked", "dead"}
  /\ IF pc = "compiled" THEN TRUE ELSE pos >= Len(Case.runs[run].events)
  /\ IF run >= Len(Case.runs) THEN Finish
     ELSE LET b == Case.runs[run + 1].booked IN
          /\ ReportAll(BookFails(b) \cup TokenFails(b), run + 1, 0)
          /\ pc' = "booked" /\ run' = run + 1 /\ pos' = 0
          /\ UNCHANGED <<c, judged, skipped, nfault, nrow>>

ProcessEvent ==
  /\ pc = "booked" /\ pos < Len(Case.runs[run].events)
  /\ LET o == Case.runs[run].events[pos + 1] IN
     /\ ReportAll(EventFails(o) \cup StateFails(o, run), run, pos + 1)
     /\ IF EventFails(o) = {} THEN TRUE
        ELSE PrintT(<<"EXPECTED", ToJson([id |-> Case.id, run |-> run, pos |-> pos + 1, want |-> Rows(Q, Events[o.e])])>>)
     /\ pos' = pos + 1
     /\ pc' = IF o.fault = "none" THEN "booked" ELSE "dead"
     /\ IF Skipped(o) THEN skipped' = skipped + 1 /\ UNCHANGED judged
        ELSE judged' = judged + 1 /\ UNCHANGED skipped
     /\ LET want == Rows(Q, Events[o.e]) IN
        /\ nfault' = nfault + (IF IsFault(want) THEN 1 ELSE 0)
        /\ nrow' = nrow + (IF ~Bad(want) /\ Len(want.v) > 0 THEN 1 ELSE 0)
     /\ UNCHANGED <<c, run>>

TNext == Translate \/ Compile \/ NextRun \/ ProcessEvent
=============================================================================
