CONSTANTS
  MaxSize = 8
  Prof <- ProfCore
  MathTable <- NoTable
INIT GInit
NEXT GNext
INVARIANT ExportGrafts
