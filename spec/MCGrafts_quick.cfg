CONSTANTS
  MaxSize = 8
  Prof <- ProfCore
  MathTable <- NoTable
  GenBackend = "any"
INIT GInit
NEXT GNext
INVARIANT ExportGrafts
