CONSTANTS
  MaxSize = 12
  Prof <- ProfUserFn
  MathTable <- NoTable
  GenBackend = "any"
INIT GInit
NEXT GNext
INVARIANT Export
