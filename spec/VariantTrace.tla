---------------------------- MODULE VariantTrace ----------------------------
(* Trace validation for C08.  TRACE_FILE:
     [events |-> <<event>>,
      cases  |-> <<[id, backend, q, digest, variants |-> <<[how, q, digest]>>]>>]
   digest = the name-normalised package (or exception class) the real translator produced.
   For every variant v of a base query q:
     VariantSound   (about the specification itself, J3): v.q denotes the same rows as q on
                    every event of the pool and has the same schema and store requests;
                    a failure is a defect of the variant generator, not of the code;
     SameUpToNames  (the property): v.digest = digest of the base query.                    *)
EXTENDS Universe, Json, IOUtils

D == JsonDeserialize(IOEnv.TRACE_FILE)
Cases == D.cases
Events == D.events
NoTable == [k \in {} |-> 0]

VARIABLES c, st
Case == Cases[c]
Sig == SigFor(Case.backend)

\* an event that either form leaves out of scope (undef: e.g. a bad value that one form binds to a parameter nobody
\* looks at and the other never computes) says nothing about the pair
SameOrOut(a, b) == IsUndef(a) \/ IsUndef(b) \/ a = b
Sound(v) == /\ \A i \in DOMAIN Events : SameOrOut(Rows(Case.q, Events[i]), Rows(v.q, Events[i]))
            /\ Schema(Case.q, Sig) = Schema(v.q, Sig)
            /\ Uses(v.q, Sig) \subseteq Uses(Case.q, Sig)

RECURSIVE CheckAll(_)
CheckAll(i) ==
  IF i > Len(Case.variants) THEN TRUE
  ELSE LET v == Case.variants[i] IN
       /\ IF Sound(v) THEN TRUE ELSE PrintT(<<"UNSOUND", Case.id, i, v.how>>)
       /\ IF v.digest = Case.digest THEN TRUE ELSE PrintT(<<"VERDICT", Case.id, "SameUpToNames", i, v.how>>)
       /\ CheckAll(i + 1)

TInit == c \in 1..Len(Cases) /\ st = "translated"
TNext == /\ st = "translated"
         /\ CheckAll(1)
         /\ st' = "compared"
         /\ UNCHANGED c
=============================================================================
