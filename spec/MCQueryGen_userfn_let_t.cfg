CONSTANTS
  MaxSize = 17
  Prof <- ProfUserFnLet
  MathTable <- NoTable
  GenBackend = "any"
INIT GInit
NEXT GNext
INVARIANT Export
