CONSTANTS
  MaxSize = 11
  Prof <- ProfMoments
  MathTable <- NoTable
  GenBackend = "atlas"
INIT GInit
NEXT GNext
INVARIANT Export
