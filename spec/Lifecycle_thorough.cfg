CONSTANTS
  MaxLen = 3
  Impl = "required"
INIT Init
NEXT Next
INVARIANT PristineAtApply
INVARIANT Export
