CONSTANTS
  MaxLen = 2
  Impl = "required"
INIT Init
NEXT Next
INVARIANT PristineAtApply
INVARIANT Export
