CONSTANTS
  MaxSize = 11
  Prof <- ProfMathFirst
  MathTable <- NoTable
  GenBackend = "any"
INIT GInit
NEXT GNext
INVARIANT Export
