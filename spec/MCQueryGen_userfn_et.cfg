CONSTANTS
  MaxSize = 12
  Prof <- ProfUserFnE
  MathTable <- NoTable
  GenBackend = "any"
INIT GInit
NEXT GNext
INVARIANT Export
