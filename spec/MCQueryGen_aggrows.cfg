CONSTANTS
  MaxSize = 14
  Prof <- ProfAggRows
  MathTable <- NoTable
  GenBackend = "any"
INIT GInit
NEXT GNext
INVARIANT Export
