CONSTANTS
  MaxSize = 12
  Prof <- ProfLet
  MathTable <- NoTable
  GenBackend = "any"
INIT GInit
NEXT GNext
INVARIANT Export
