CONSTANTS
  MaxSize = 11
  Prof <- ProfUserFn
  MathTable <- NoTable
  GenBackend = "any"
INIT GInit
NEXT GNext
INVARIANT Export
