CONSTANTS
  Names <- NamesQ
  Unsent = "z"
  Scripts <- ScriptsQ
  MaxLen = 3
  MaxDeps = 2
INIT Init
NEXT Next
INVARIANT LoopMeetsSpecOutcome
INVARIANT LoopMeetsSpecScript
INVARIANT LoopNeverDrops
