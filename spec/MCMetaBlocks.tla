--------------------------- MODULE MCMetaBlocks ---------------------------
(* Model-checking instance of MetaBlocks: design check of the emission loop
   against the required behaviour, and export of every block list in scope
   for replay into the real generate_script_block.                         *)
EXTENDS MetaBlocks, Json, IOUtils

NamesQ   == {"a", "b"}
NamesT   == {"a", "b", "c"}
ScriptsQ == {<<"x">>, <<"x", "y">>}
ScriptsT == {<<>>, <<"x">>, <<"x", "y">>}

ExportFile == IF "OUT_FILE" \in DOMAIN IOEnv THEN IOEnv.OUT_FILE ELSE ""
ASSUME ExportFile = "" \/ JsonSerialize(ExportFile, SetToSeq(BlockLists))
=============================================================================
