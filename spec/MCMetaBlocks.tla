--------------------------- MODULE MCMetaBlocks ---------------------------
(* Model-checking instance of MetaBlocks: design check of the emission loop
   against the required behaviour, and export of every block list in scope
   for replay into the real generate_script_block.                         *)
EXTENDS MetaBlocks, Json, IOUtils

NamesQ   == {"a", "b"}
NamesT   == {"a", "b", "c"}
ScriptsQ == {<<"x">>, <<"x", "y">>}
ScriptsT == {<<>>, <<"x">>, <<"x", "y">>}

(* A family the exhaustive configurations are too small for: FOUR blocks over three names (so some name is always
   sent at least twice), every block with its own two-line script (the order of the blocks shows in the output), up to
   two dependencies each on the other names.  Dup4Sorted: dependency lists sorted and without repetition
   (12^4 = 20 736 lists); Dup4All: every dependency sequence of length <= 2 (21^4 = 194 481).                  *)
NScript(n) == <<n \o "1", n \o "2">>
OthersOf(n) == NamesT \ {n}
SortedDeps(n) == {<<>>} \cup {<<d>> : d \in OthersOf(n)}
                 \cup {s \in [1..2 -> OthersOf(n)] : s[1] \in {"a", "b"} /\ s[2] \in {"b", "c"} /\ s[1] # s[2]}
AllDeps(n) == UNION {[1..len -> OthersOf(n)] : len \in 0..2}
NBlocks(D(_)) == UNION {{[name |-> n, script |-> NScript(n), deps |-> d] : d \in D(n)} : n \in NamesT}
Dup4Sorted == [1..4 -> NBlocks(SortedDeps)]
Dup4All == [1..4 -> NBlocks(AllDeps)]

ExportFile == IF "OUT_FILE" \in DOMAIN IOEnv THEN IOEnv.OUT_FILE ELSE ""
ASSUME ExportFile = "" \/ JsonSerialize(ExportFile, SetToSeq(BlockLists))
=============================================================================
