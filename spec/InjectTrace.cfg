CONSTANTS
  BlockNames = {}
  MaxLen = 0
INIT TInit
NEXT TNext
