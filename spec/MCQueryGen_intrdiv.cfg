CONSTANTS
  MaxSize = 12
  Prof <- ProfIntRDiv
  MathTable <- NoTable
  GenBackend = "any"
INIT GInit
NEXT GNext
INVARIANT Export
