CONSTANTS
  MaxLen = 2
  PrefixKinds = {"full", "compile", "run"}
  Ds = {"", "/data/x.root"}
  Os = {"default", "dir", "file"}
INIT RInit
NEXT RNext
INVARIANT DeliveredIsCurrent
INVARIANT Export
PROPERTY CompileOnlyIsQuiet
PROPERTY OnlyTargetChanges
PROPERTY RunNeedsBuild
