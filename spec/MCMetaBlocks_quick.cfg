CONSTANTS
  Names <- NamesT
  Unsent = "z"
  Scripts <- ScriptsQ
  MaxLen = 3
  MaxDeps = 1
INIT Init
NEXT Next
INVARIANT LoopMeetsSpecOutcome
INVARIANT LoopMeetsSpecScript
INVARIANT LoopNeverDrops
