CONSTANTS
  MaxSize = 14
  Prof <- ProfRows2
  MathTable <- NoTable
  GenBackend = "any"
INIT GInit
NEXT GNext
INVARIANT Export
