----------------------------- MODULE InjectTrace -----------------------------
(* Trace validation for C14.  TRACE_FILE: one record per block list sent through the real
   executor:  [blocks, backend, outcome, regions |-> [<region> |-> <<texts>>]]
   where `regions` lists, for each structural region of the rendered files, every text found
   there (include names, initialiser entries, statements, library names).  For an accepted
   list, each region filtered to the universe of injected texts must equal Slots of the field
   documented for that region (and be empty for regions where nothing may land).            *)
EXTENDS Inject, IOUtils

Obs == JsonDeserialize(IOEnv.TRACE_FILE)
VARIABLES i, st

Home == [cxx_includes |-> "body_includes", cxx_init_list |-> "instance_initialization", cxx_ctor_body |-> "ctor_lines",
         cxx_initialize |-> "initialize_lines", cxx_rest |-> "", h_includes |-> "header_includes",
         h_class |-> "private_members", cmake_link |-> "link_libraries", cmake_rest |-> "", other_files |-> ""]
CmsHome == [cc_includes |-> "body_includes"]

Injected(seq) == SelectSeq(seq, LAMBDA t : t \in AllLines)

Fails(r) ==
  LET want == Outcome(r.blocks) IN
  IF want = "error" THEN (IF r.outcome = "ValueError" THEN {} ELSE {"BlockOutcome"})
  ELSE IF r.outcome # "ok" THEN {"BlockOutcome"}
  ELSE IF r.backend = "atlas"
       THEN {"SlotsExact:" \o reg : reg \in {reg \in DOMAIN Home :
                 Injected(r.regions[reg]) # (IF Home[reg] = "" THEN <<>> ELSE Slots(r.blocks, Home[reg]))}}
       ELSE {"SlotsExact:" \o reg : reg \in {reg \in DOMAIN CmsHome :
                 Injected(r.regions[reg]) # Slots(r.blocks, CmsHome[reg])}}

RECURSIVE ReportAll(_)
ReportAll(fs) == IF fs = {} THEN TRUE
                 ELSE LET f == CHOOSE x \in fs : TRUE IN PrintT(<<"VERDICT", i, f>>) /\ ReportAll(fs \ {f})
TInit == i \in 1..Len(Obs) /\ st = "sent"
TNext == st = "sent" /\ ReportAll(Fails(Obs[i])) /\ st' = "rendered" /\ UNCHANGED i
=============================================================================
