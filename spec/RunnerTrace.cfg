INIT TInit
NEXT TNext
