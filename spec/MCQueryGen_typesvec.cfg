CONSTANTS
  MaxSize = 9
  Prof <- ProfTypesVec
  MathTable <- NoTable
  GenBackend = "any"
INIT GInit
NEXT GNext
INVARIANT Export
