----------------------------- MODULE MCSiblings -----------------------------
(* C08, third family of bases: one lambda whose body holds SEVERAL lambdas (siblings), the whole
   sitting in a chained step, so that the hostile renamings of Variants.tla produce
       jets.Where(lambda x: x.trks().Where(lambda x: ..).Count() > 0 and x.trks().Where(lambda x: ..).Count() > 0)
           .Where(lambda x: ..)
   The random derivations of the shadow profiles almost never reach this shape (it needs about 30
   tokens), so the family is written out as a set of terms over a few choices:
     inner sequence   a Where, a Select, or a nested Where over the tracks of the object
     combination      and / + / a tuple-free comparison of two inner counts, or three of them
     chain            Where.Where, Where.Select, Select.Where, Where.Where.Select
   Everything else (variants, rendering, replay, validation) is shared with MCVariants.      *)
EXTENDS MCQueryGen, Variants

Tm(k, a, n, ch) == [k |-> k, a |-> a, b |-> "", n |-> n, d |-> 1, ch |-> ch]
Vr(x) == Tm("Var", x, 0, <<>>)
CIi(i) == [k |-> "Const", a |-> "int", b |-> "", n |-> i, d |-> 1, ch |-> <<>>]
Mt(name, o) == Tm("Meth", name, 0, <<o>>)
Gt(x, y) == Tm("Cmp", ">", 0, <<x, y>>)
Cnt(s) == Tm("Count", "", 0, <<s>>)
JetsOf == [k |-> "Coll", a |-> "A", b |-> "bk1", n |-> 0, d |-> 1, ch |-> <<Vr("e")>>]

\* a sequence over the tracks of object x with its own lambda named y
Inner(x, y, kind) ==
  CASE kind = "where"  -> Tm("Where", y, 0, <<Mt("trks", Vr(x)), Gt(Mt("pt", Vr(y)), CIi(1))>>)
    [] kind = "select" -> Tm("Select", y, 0, <<Mt("trks", Vr(x)), Mt("pt", Vr(y))>>)
    [] kind = "where0" -> Tm("Where", y, 0, <<Mt("trks", Vr(x)), Gt(Mt("pt", Vr(y)), CIi(0))>>)
    \* the inner lambda looks at the outer object as well (only renamings that keep the two apart are sound)
    [] kind = "outer"  -> Tm("Where", y, 0, <<Mt("trks", Vr(x)), Gt(Mt("pt", Vr(y)), Mt("pt", Vr(x)))>>)
Kinds == {"where", "select", "where0", "outer"}

\* predicates / values over object x with two or three sibling lambdas k, l, m
Pred(x, k1, k2, how) ==
  CASE how = "and" -> [k |-> "And", a |-> "", b |-> "", n |-> 2, d |-> 1,
                       ch |-> <<Gt(Cnt(Inner(x, "k", k1)), CIi(0)), Gt(Cnt(Inner(x, "l", k2)), CIi(1))>>]
    [] how = "sum" -> Gt(Tm("Bin", "+", 0, <<Cnt(Inner(x, "k", k1)), Cnt(Inner(x, "l", k2))>>), CIi(1))
    [] how = "cmp" -> Gt(Cnt(Inner(x, "k", k1)), Cnt(Inner(x, "l", k2)))
    \* (binary and, nested: the wire format has no n-ary and, so a flat three-operand one would come back re-associated)
    [] how = "three" -> [k |-> "And", a |-> "", b |-> "", n |-> 2, d |-> 1,
                         ch |-> <<[k |-> "And", a |-> "", b |-> "", n |-> 2, d |-> 1,
                                   ch |-> <<Gt(Cnt(Inner(x, "k", k1)), CIi(0)), Gt(Cnt(Inner(x, "l", k2)), CIi(0))>>],
                                  Gt(Cnt(Inner(x, "m", k1)), CIi(1))>>]
Hows == {"and", "sum", "cmp", "three"}
Val(x, k1, k2) == Tm("Bin", "+", 0, <<Cnt(Inner(x, "k", k1)), Cnt(Inner(x, "l", k2))>>)

Chain(k1, k2, how, ch) ==
  CASE ch = "ww"  -> Tm("Where", "p", 0, <<Tm("Where", "j", 0, <<JetsOf, Pred("j", k1, k2, how)>>), Gt(Mt("pt", Vr("p")), CIi(0))>>)
    [] ch = "ws"  -> Tm("Select", "p", 0, <<Tm("Where", "j", 0, <<JetsOf, Pred("j", k1, k2, how)>>), Mt("pt", Vr("p"))>>)
    [] ch = "sw"  -> Tm("Where", "p", 0, <<Tm("Select", "j", 0, <<JetsOf, Val("j", k1, k2)>>), Gt(Vr("p"), CIi(1))>>)
    [] ch = "wws" -> Tm("Select", "q", 0, <<Tm("Where", "p", 0, <<Tm("Where", "j", 0, <<JetsOf, Pred("j", k1, k2, how)>>),
                                                                     Pred("p", k2, k1, how)>>), Mt("pt", Vr("q"))>>)
Chains == {"ww", "ws", "sw", "wws"}

DSn == Tm("DS", "", 0, <<>>)
Whole(c) == IF c.k = "Select" /\ c.ch[2].k = "Meth"
            THEN Tm("Select", "e", 0, <<DSn, c>>)                       \* a vector column
            ELSE Tm("Select", "e", 0, <<DSn, Cnt(c)>>)                  \* how many survive
SiblingBases == {Whole(Chain(k1, k2, how, ch)) : k1 \in Kinds, k2 \in Kinds, how \in Hows, ch \in Chains}

(* Fourth family: STRAIGHT nests three lambdas deep inside a chained step,
       jets.Where(lambda j: j.trks().Where(lambda t: j.vals().Where(lambda v: v > t.pt()).Count() > 0).Count() > 0).Where(lambda p: ..)
   The hostile renamings then give the innermost parameter the name of its GRANDPARENT (j .. t .. j), which is sound
   whenever the innermost body does not look at the grandparent; a renamer that only remembers the directly enclosing
   lambda, together with the Where-of-Where fusion of the dependency, captures it.                                     *)
In3(j, t, v, kind) ==
  CASE kind = "parent" -> Tm("Where", v, 0, <<Mt("vals", Vr(j)), Gt(Vr(v), Mt("pt", Vr(t)))>>)
    [] kind = "const"  -> Tm("Where", v, 0, <<Mt("vals", Vr(j)), Gt(Vr(v), CIi(0))>>)
    [] kind = "grand"  -> Tm("Where", v, 0, <<Mt("vals", Vr(j)), Gt(Vr(v), Mt("pt", Vr(j)))>>)
    [] kind = "select" -> Tm("Select", v, 0, <<Mt("vals", Vr(j)), Tm("Bin", "+", 0, <<Vr(v), Mt("pt", Vr(t))>>)>>)
Kinds3 == {"parent", "const", "grand", "select"}
Mid3(j, t, v, kind, mk) ==
  CASE mk = "where"  -> Tm("Where", t, 0, <<Mt("trks", Vr(j)), Gt(Cnt(In3(j, t, v, kind)), CIi(0))>>)
    [] mk = "select" -> Tm("Select", t, 0, <<Mt("trks", Vr(j)), Cnt(In3(j, t, v, kind))>>)
Pred3(j, kind, mk) == Gt(Cnt(Mid3(j, "t", "v", kind, mk)), CIi(0))
Chain3(kind, mk, ch) ==
  CASE ch = "ww"  -> Tm("Where", "p", 0, <<Tm("Where", "j", 0, <<JetsOf, Pred3("j", kind, mk)>>), Gt(Mt("pt", Vr("p")), CIi(0))>>)
    [] ch = "ws"  -> Tm("Select", "p", 0, <<Tm("Where", "j", 0, <<JetsOf, Pred3("j", kind, mk)>>), Mt("pt", Vr("p"))>>)
    [] ch = "w"   -> Tm("Where", "j", 0, <<JetsOf, Pred3("j", kind, mk)>>)
    [] ch = "www" -> Tm("Where", "q", 0, <<Tm("Where", "p", 0, <<Tm("Where", "j", 0, <<JetsOf, Pred3("j", kind, mk)>>),
                                                                  Pred3("p", kind, mk)>>), Gt(Mt("pt", Vr("q")), CIi(0))>>)
Nest3Bases == {Whole(Chain3(kind, mk, ch)) : kind \in Kinds3, mk \in {"where", "select"}, ch \in {"ww", "ws", "w", "www"}}

VARIABLE c
SInit == c \in SiblingBases \cup Nest3Bases /\ toks = <<>> /\ agenda = <<>>
SNext == FALSE /\ c' = c /\ UNCHANGED gvars
ExportSiblings == PrintT(<<"CASE", ToJson([q |-> c, support |-> Support(c), fam |-> IF c \in Nest3Bases THEN "nest3" ELSE "siblings",
                                            variants |-> SetToSeq(VariantRecs(c))])>>)
=============================================================================
