CONSTANTS
  MaxSize = 9
  Prof <- ProfCore
  MathTable <- NoTable
INIT GInit
NEXT GNext
INVARIANT ExportGrafts
