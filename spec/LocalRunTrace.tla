---------------------------- MODULE LocalRunTrace ----------------------------
(* Trace validation for C17.  TRACE_FILE: one record per scenario executed with the real
   LocalDataset classes and the stand-in python_on_whales:
     [sc, raised, exc, calls |-> <<[image, command, mounts |-> <<[host, point, mode]>>, remove, stream,
                                   filelist, data_dir_is_files_dir]>>,
      returned, returned_in_outdir, result_is_containers, tmp_left, pkg_dir_is_tmp,
      e2e_inputs |-> the input list the job inside the container worked on (container outcome real_runner)]
   Each scenario is one behaviour of the LocalRun machine; the clauses are the property.     *)
EXTENDS LocalRunReq, Json, IOUtils

Obs == JsonDeserialize(IOEnv.TRACE_FILE)
VARIABLES i, st

Point(m) == m.point
MountAt(call, p) == {j \in DOMAIN call.mounts : call.mounts[j].point = p}

Fails(r) ==
  LET e == Expected(r.sc) IN
  (IF r.raised # e.raises THEN {"ErrorPropagates"} ELSE {})
  \cup (IF e.raises /\ r.raised /\ e.exc # "any" /\ r.exc # e.exc THEN {"ErrorClass"} ELSE {})
  \cup (IF ~e.started /\ Len(r.calls) > 0 THEN {"PreflightBeforeContainer"} ELSE {})
  \cup (IF e.started /\ Len(r.calls) # 1 THEN {"OneContainer"} ELSE {})
  \cup (IF e.started /\ Len(r.calls) = 1
        THEN LET c == r.calls[1] IN
             (IF c.image # e.image THEN {"RightImage"} ELSE {})
             \cup (IF c.command # <<"/scripts/runner.sh">> THEN {"RightCommand"} ELSE {})
             \cup (IF c.filelist # e.filelist THEN {"FilelistExact"} ELSE {})
             \cup (IF \/ Cardinality(MountAt(c, "/scripts")) # 1 \/ Cardinality(MountAt(c, "/results")) # 1
                      \/ Cardinality(MountAt(c, "/data")) # 1
                   THEN {"RightVolumes"}
                   ELSE LET s == c.mounts[CHOOSE j \in MountAt(c, "/scripts") : TRUE]
                            o == c.mounts[CHOOSE j \in MountAt(c, "/results") : TRUE]
                            d == c.mounts[CHOOSE j \in MountAt(c, "/data") : TRUE] IN
                        (IF s.host # o.host \/ ~r.pkg_dir_is_tmp THEN {"RightVolumes"} ELSE {})
                        \cup (IF d.mode # "ro" \/ ~c.data_dir_is_files_dir THEN {"RightVolumes"} ELSE {})
                        \cup (IF o.mode = "ro" THEN {"RightVolumes"} ELSE {}))
             \cup (IF {c.mounts[j].point : j \in DOMAIN c.mounts} # {"/scripts", "/results", "/data"} \cup e.cache
                   THEN {"RightVolumes"} ELSE {})
        ELSE {})
  \cup (IF e.returns /\ ~(r.returned /\ r.returned_in_outdir /\ r.result_is_containers) THEN {"ReturnsResult"} ELSE {})
  \* end to end: the result handed back was made by the package's own runner.sh from exactly the files listed, in order
  \cup (IF e.returns /\ r.sc.container = "real_runner" /\ r.e2e_inputs # e.filelist THEN {"ReturnsResult"} ELSE {})
  \cup (IF ~e.returns /\ r.returned THEN {"NothingReturnedOnError"} ELSE {})
  \cup (IF r.tmp_left # <<>> THEN {"TempRemoved"} ELSE {})

RECURSIVE ReportAll(_)
ReportAll(fs) == IF fs = {} THEN TRUE
                 ELSE LET f == CHOOSE x \in fs : TRUE IN PrintT(<<"VERDICT", i, f>>) /\ ReportAll(fs \ {f})

TInit == i \in 1..Len(Obs) /\ st = "start"
TNext == st = "start" /\ ReportAll(Fails(Obs[i])) /\ st' = "checked" /\ UNCHANGED i
=============================================================================
