CONSTANTS
  MaxSize = 10
  Prof <- ProfSchema
  MathTable <- NoTable
INIT GInit
NEXT GNext
INVARIANT Export
