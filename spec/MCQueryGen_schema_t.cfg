CONSTANTS
  MaxSize = 10
  Prof <- ProfSchema
  MathTable <- NoTable
  GenBackend = "any"
INIT GInit
NEXT GNext
INVARIANT Export
