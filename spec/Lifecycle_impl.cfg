CONSTANTS
  MaxLen = 3
  Impl = "as_implemented"
INIT Init
NEXT Next
INVARIANT PristineAtApply
