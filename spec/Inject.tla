------------------------------- MODULE Inject -------------------------------
(* Machine M3, inject_code half (property C14).

   A block is [name, shape, bad]: `shape` selects its lines per field (table Lines below), `bad`
   adds an unknown field.  REQUIRED behaviour:
     Outcome(bl)        "error" iff two blocks share a name but not their content, or a block has
                        an unknown field;
     Slots(bl)[field]   the lines that must appear in the documented place of `field`: for each
                        distinct block, in order of first arrival, its lines in their own order.
   The machine below is the ingestion loop as coded (process_metadata / ok_to_add_code_block:
   skip an identical duplicate, raise on a conflicting one) and is checked against Outcome and
   Slots by TLC for every block list in scope; the real code is bound by InjectTrace.tla.      *)
EXTENDS Naturals, Sequences, FiniteSets, TLC, Json

Fields == <<"body_includes", "header_includes", "private_members", "instance_initialization",
            "ctor_lines", "initialize_lines", "link_libraries">>

\* line texts; H-lines carry characters that are special to the template engine / C++ / CMake
\* S-lines: ONE text shared by two fields (the same header in body_includes and header_includes, the same
\* statement in the constructor and in initialize()): each field still gets its own copy
L(f, x) == CASE x = "S" /\ f \in {"body_includes", "header_includes"} -> "vp_shared.h"
             [] x = "S" /\ f \in {"ctor_lines", "initialize_lines"} -> "vp_both();"
             [] f = "body_includes"           -> IF x = "H" THEN "vp_b{{7*7}}.h" ELSE "vp_body_" \o x \o ".h"
             [] f = "header_includes"         -> IF x = "H" THEN "vp_h{% raw %}.h" ELSE "vp_head_" \o x \o ".h"
             [] f = "private_members"         -> IF x = "H" THEN "int vp_m_H = '<' & '>'; // {# no comment #}" ELSE "int vp_m_" \o x \o ";"
             [] f = "instance_initialization" -> IF x = "H" THEN "vp_m_H ({{ 1 }})" ELSE "vp_m_" \o x \o " (1)"
             [] f = "ctor_lines"              -> IF x = "H" THEN "vp_ctor(\"{%\");" ELSE "vp_ctor_" \o x \o "();"
             [] f = "initialize_lines"        -> IF x = "H" THEN "vp_init(\"}}\");" ELSE "vp_init_" \o x \o "();"
             [] f = "link_libraries"          -> IF x = "H" THEN "vpLib{{H}}" ELSE "vpLib" \o x

Shapes == {"allA", "allAB", "allBA", "incl", "members", "hostile", "shared", "empty", "emptylists"}
LettersOf(shape, f) ==
  CASE shape = "allA" -> <<"A">>
    [] shape = "allAB" -> <<"A", "B">>
    [] shape = "allBA" -> <<"B", "A">>
    [] shape = "incl" -> IF f \in {"body_includes", "header_includes"} THEN <<"C">> ELSE <<>>
    [] shape = "members" -> IF f \in {"private_members", "instance_initialization", "ctor_lines"} THEN <<"A", "C">> ELSE <<>>
    [] shape = "hostile" -> <<"H">>
    [] shape = "shared" -> IF f \in {"body_includes", "header_includes", "ctor_lines", "initialize_lines"} THEN <<"S">> ELSE <<>>
    [] shape \in {"empty", "emptylists"} -> <<>>
LinesOf(b, f) == LET ls == LettersOf(b.shape, f) IN [i \in 1..Len(ls) |-> L(f, ls[i])]

CONSTANTS BlockNames, MaxLen
Block == [name : BlockNames, shape : Shapes, bad : BOOLEAN]
BlockLists == UNION {[1..n -> Block] : n \in 0..MaxLen}

\* a block sent as {"metadata_type": "inject_code"} alone (shape "empty" is sent with its name only)
SameContent(b1, b2) == \A i \in DOMAIN Fields : LinesOf(b1, Fields[i]) = LinesOf(b2, Fields[i])

Conflict(bl) == \E i, j \in DOMAIN bl : bl[i].name = bl[j].name /\ ~SameContent(bl[i], bl[j])
Outcome(bl) == IF Conflict(bl) \/ \E i \in DOMAIN bl : bl[i].bad THEN "error" ELSE "ok"

\* first arrival of each name
Firsts(bl) == SelectSeq([i \in DOMAIN bl |-> i], LAMBDA i : \A j \in 1..(i - 1) : bl[j].name # bl[i].name)
RECURSIVE ConcatLines(_, _, _, _)
ConcatLines(bl, idx, f, k) == IF k > Len(idx) THEN <<>> ELSE LinesOf(bl[idx[k]], f) \o ConcatLines(bl, idx, f, k + 1)
Slots(bl, f) == ConcatLines(bl, Firsts(bl), f, 1)

AllLines == {L(Fields[i], x) : i \in DOMAIN Fields, x \in {"A", "B", "C", "H", "S"}}
=============================================================================
