--------------------------- MODULE ExportUniverse ---------------------------
EXTENDS Universe, Json
NoTable == [k \in {} |-> 0]
VARIABLE x
ASSUME PrintT(<<"UNIVERSE", ToJson(UniverseRecord)>>)
Init == x = 0
Next == FALSE /\ x' = x
=============================================================================
