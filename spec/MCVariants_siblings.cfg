CONSTANTS
  MaxSize = 30
  Prof <- ProfSiblings
  MathTable <- NoTable
  GenBackend = "any"
INIT GInit
NEXT GNext
INVARIANT ExportVariants
