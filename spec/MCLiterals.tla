----------------------------- MODULE MCLiterals -----------------------------
(* C18: the literal space.  A case is a small query with one literal at one position:
     value    Select(ds, e: <numeric literal>)                 the column must hold exactly that value
     bank     Select(ds, e: e.<A>(<string>).Count())           the store must be asked for exactly that bank
     tree     AsROOTTTree(..., ["a"], <string>)                 the booked tree must carry exactly that name
     column   AsROOTTTree(..., [<string>], "a")                 the booked branch must carry exactly that name
   Numeric literals are carried as their exact text (Python's own repr of the constant); strings
   as sequences of character names joined by "." (the harness maps names to characters and the
   observed strings back to names), because the characters that matter here (quote, backslash,
   newline, non-ASCII) cannot travel safely through every tool in between.
   support: MUST_ACCEPT when the literal is representable in the generated code's types, MAY when it
   is not (then it must either be refused or still arrive exactly).                                   *)
EXTENDS Universe, Json
NoTable == [k \in {} |-> 0]

IntLits == <<
  [text |-> "0", kind |-> "int", support |-> "MUST_ACCEPT"],
  [text |-> "7", kind |-> "int", support |-> "MUST_ACCEPT"],
  [text |-> "2147483647", kind |-> "int", support |-> "MUST_ACCEPT"],
  [text |-> "2147483648", kind |-> "wide", support |-> "MAY"],
  [text |-> "4294967296", kind |-> "wide", support |-> "MAY"],
  [text |-> "9223372036854775807", kind |-> "wide", support |-> "MAY"],
  [text |-> "9223372036854775808", kind |-> "wide", support |-> "MAY"],
  [text |-> "12345678901234567890123", kind |-> "wide", support |-> "MAY"]
>>
FloatLits == <<
  [text |-> "1.5", support |-> "MUST_ACCEPT"], [text |-> "0.1", support |-> "MUST_ACCEPT"],
  [text |-> "1e-05", support |-> "MUST_ACCEPT"], [text |-> "1e+22", support |-> "MUST_ACCEPT"],
  [text |-> "123456789.12345679", support |-> "MUST_ACCEPT"], [text |-> "1.7976931348623157e+308", support |-> "MUST_ACCEPT"],
  [text |-> "5e-324", support |-> "MUST_ACCEPT"], [text |-> "1e-320", support |-> "MUST_ACCEPT"],
  [text |-> "inf", support |-> "MAY"],      \* written 1e400 in the query
  [text |-> "2.0", support |-> "MUST_ACCEPT"]
>>
CharNames == <<"a", "Z", "QUOTE", "BSL", "NL", "PCT", "EACUTE", "LBRACE", "SP", "APOS">>
Strs1 == {CharNames[i] : i \in DOMAIN CharNames}
Strs2 == {CharNames[i] \o "." \o CharNames[j] : i, j \in DOMAIN CharNames}
StrLits == Strs1 \cup Strs2 \cup {"a.QUOTE.a", "BSL.BSL.QUOTE", "a.BSL.NL", "PCT.a.PCT", "LBRACE.LBRACE.a"}

T0(k, a, b, n, ch) == [k |-> k, a |-> a, b |-> b, n |-> n, d |-> 1, ch |-> ch]
DSt == T0("DS", "", "", 0, <<>>)
Ev == T0("Var", "e", "", 0, <<>>)
ValueCase(kind, text) == T0("Select", "e", "", 0, <<DSt, T0("Lit", kind, text, 0, <<>>)>>)
NegCase(kind, text) == T0("Select", "e", "", 0, <<DSt, T0("Un", "-", "", 0, <<T0("Lit", kind, text, 0, <<>>)>>)>>)
BankCase(s) == T0("Select", "e", "", 0, <<DSt, T0("Count", "", "", 0, <<T0("Coll", "A", s, 0, <<Ev>>)>>)>>)
One == T0("Select", "e", "", 0, <<DSt, T0("Const", "int", "", 1, <<>>)>>)
TreeCase(s) == T0("Root", s, "vpfile", 1, <<One, T0("Str", "a", "", 0, <<>>)>>)
ColumnCase(s) == T0("Root", "a", "vpfile", 1, <<One, T0("Str", s, "", 0, <<>>)>>)

\* several literals in ONE query, among them constants that compare equal in Python but are of different
\* types (1 == 1.0 == True, 0 == 0.0 == False, 1000000 == 1000000.0): each column must still hold its own
\* literal, with its own kind
Pool == <<[kind |-> "int", text |-> "1"], [kind |-> "float", text |-> "1.0"], [kind |-> "bool", text |-> "True"],
          [kind |-> "int", text |-> "0"], [kind |-> "float", text |-> "0.0"], [kind |-> "bool", text |-> "False"],
          [kind |-> "int", text |-> "1000000"], [kind |-> "float", text |-> "1000000.0"], [kind |-> "float", text |-> "1.5"]>>
LitOf(p) == T0("Lit", p.kind, p.text, 0, <<>>)
TupleCase(ps) == T0("Select", "e", "", 0, <<DSt, T0("Tuple", "", "", Len(ps), [i \in DOMAIN ps |-> LitOf(ps[i])])>>)
SameValue == {<<1, 2, 3>>, <<3, 2, 1>>, <<2, 1, 3>>, <<4, 5, 6>>, <<6, 4, 5>>, <<5, 6, 4>>}
TupleCases == {[pos |-> "tuple", q |-> TupleCase(<<Pool[i], Pool[j]>>), support |-> "MUST_ACCEPT"] : i, j \in DOMAIN Pool}
         \cup {[pos |-> "tuple", q |-> TupleCase([k \in 1..3 |-> Pool[t[k]]]), support |-> "MUST_ACCEPT"] : t \in SameValue}

\* two bank names in ONE query, same collection kind: each retrieval must ask for its own bank
BankPool == {"a", "Z", "a.QUOTE.a", "BSL.BSL.QUOTE", "a.Z", "Z.a"}
BankPairCase(s1, s2) == T0("Select", "e", "", 0, <<DSt, T0("Tuple", "", "", 2,
                            <<T0("Count", "", "", 0, <<T0("Coll", "A", s1, 0, <<Ev>>)>>),
                              T0("Count", "", "", 0, <<T0("Coll", "A", s2, 0, <<Ev>>)>>)>>)>>)
BankPairCases == {[pos |-> "bankpair", q |-> BankPairCase(p[1], p[2]), support |-> "MUST_ACCEPT"] :
                    p \in {p \in BankPool \X BankPool : p[1] # p[2]}}

Cases ==
     TupleCases \cup BankPairCases \cup
     {[pos |-> "value", q |-> ValueCase(IntLits[i].kind, IntLits[i].text), support |-> IntLits[i].support] : i \in DOMAIN IntLits}
  \cup {[pos |-> "value", q |-> ValueCase("float", FloatLits[i].text), support |-> FloatLits[i].support] : i \in DOMAIN FloatLits}
  \cup {[pos |-> "value", q |-> ValueCase("bool", b), support |-> "MUST_ACCEPT"] : b \in {"True", "False"}}
  \cup {[pos |-> "bank", q |-> BankCase(s), support |-> "MUST_ACCEPT"] : s \in StrLits}
  \cup {[pos |-> "tree", q |-> TreeCase(s), support |-> "MUST_ACCEPT"] : s \in StrLits}
  \cup {[pos |-> "column", q |-> ColumnCase(s), support |-> "MUST_ACCEPT"] : s \in StrLits}

VARIABLE c
LInit == c \in Cases
LNext == FALSE /\ c' = c
Export == PrintT(<<"CASE", ToJson(c)>>)
=============================================================================
