------------------------------- MODULE RunnerReq ----------------------------
(* Machine M4: the runner.sh protocol inside a (reused) container (property C16).

   State:  built  "no" | "yes" | "dirty"   is there a usable build in the working directory
           dest   path -> [run, inputs]            what each destination currently holds (run 0 = nothing)
   An invocation is [kind, d, o]:
           kind  full (no flag) | compile (-c) | run (-r) | both (-c -r) | badflag | stray
           d     "" or the single input file given with -d
           o     "default" | "dir" | "file"     where -o points (nothing / a directory / a file name)
   and may have one injected failure: the k-th external command it performs fails; `cls` is
   the class of that command (setup, build, job, convert, copy = the step classes the property
   names; util = incidental commands such as mkdir, chmod, dirname).

   Required outcome of Invoke(inv, cls) in state (built, dest):
     badflag -> exit 10, stray -> exit 1, nothing changes;
     a failure in a named class -> exit non-zero, no destination holds output of this run;
     no failure, compile possible (nothing built yet) / run possible (a good build exists)
          -> exit 0; -c leaves every destination alone; a run phase puts THIS run's output,
             made from exactly the requested inputs, at the target and nowhere else;
     -r without a build -> exit non-zero, destinations unchanged;
     everything else (-c -r together, compiling twice in one directory, incidental failures,
     anything after a failed build) is left open by the property, except for the clause that
     holds always: exit 0 with a run phase => this run's output is at the target.           *)
EXTENDS Naturals, Sequences, TLC

Kinds == {"full", "compile", "run", "both", "badflag", "stray"}
NamedClasses == {"setup", "build", "job", "convert", "copy"}

DoCompile(inv) == inv.kind \in {"full", "compile"}
DoRun(inv) == inv.kind \in {"full", "run"}

TargetOf(inv) == CASE inv.o = "default" -> "/results/ANALYSIS.root"
                   [] inv.o = "dir" -> "/out2/ANALYSIS.root"
                   [] inv.o = "file" -> "/out2/custom.root"

DefaultInputs == <<"/data/default1.root", "/data/default2.root">>
InputsOf(inv) == IF inv.d = "" THEN DefaultInputs ELSE <<inv.d>>

\* "must" outcomes; "may" = the property does not fix the exit status here
Outcome(inv, cls, built) ==
  IF inv.kind = "badflag" THEN "exit10"
  ELSE IF inv.kind = "stray" THEN "exit1"
  ELSE IF inv.kind = "both" THEN "may"
  ELSE IF built = "dirty" THEN "may"
  ELSE IF cls \in NamedClasses THEN "fail"
  ELSE IF cls = "util" THEN "may"
  ELSE IF DoCompile(inv) /\ built = "yes" THEN "may"
  ELSE IF ~DoCompile(inv) /\ built = "no" THEN "fail"
  ELSE "ok"

NextBuilt(inv, cls, built, exit) ==
  IF inv.kind \in {"badflag", "stray"} THEN built
  ELSE IF Outcome(inv, cls, built) = "ok" THEN (IF DoCompile(inv) THEN "yes" ELSE built)
  ELSE IF Outcome(inv, cls, built) = "fail" /\ ~DoCompile(inv) THEN built
  ELSE IF exit = 0 /\ ~DoCompile(inv) THEN built
  ELSE "dirty"

Paths == {"/results/ANALYSIS.root", "/out2/ANALYSIS.root", "/out2/custom.root"}
=============================================================================
