------------------------------ MODULE LocalRun ------------------------------
(* The LocalRun machine: walks every scenario of LocalRunReq through the steps of
   common/local_dataset.py, checks the design-level ordering facts and exports the scenarios. *)
EXTENDS LocalRunReq, Json

----------------------------------------------------------------------------
(* the machine *)
VARIABLES sc, pc, started, tmp, returned
lvars == <<sc, pc, started, tmp, returned>>

Order == <<"construct", "generate", "filelist", "docker", "extract", "done">>
Idx(step) == CHOOSE i \in DOMAIN Order : Order[i] = step

LInit == sc \in Scenario /\ pc = "construct" /\ started = FALSE /\ tmp = FALSE /\ returned = FALSE

Step ==
  /\ pc \in {"construct", "generate", "filelist", "docker", "extract"}
  /\ IF Ends(sc) = pc
     THEN /\ pc' = "raised" /\ tmp' = FALSE       \* the temporary directory goes away on the error path too
          /\ started' = (started \/ pc = "docker")
          /\ UNCHANGED <<sc, returned>>
     ELSE /\ pc' = Order[Idx(pc) + 1]
          /\ tmp' = (IF pc = "construct" THEN TRUE ELSE IF pc = "extract" THEN FALSE ELSE tmp)
          /\ started' = (started \/ pc = "docker")
          /\ returned' = (pc = "extract")
          /\ UNCHANGED sc
LNext == Step

\* design-level facts
PreflightBeforeContainer == (pc = "raised" /\ Ends(sc) \in {"construct", "generate", "filelist"}) => ~started
NothingReturnedOnError == pc = "raised" => ~returned
TempRemoved == pc \in {"raised", "done"} => ~tmp
Export == pc = "construct" => PrintT(<<"SCENARIO", ToJson(sc)>>)
=============================================================================
