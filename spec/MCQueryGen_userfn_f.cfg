CONSTANTS
  MaxSize = 11
  Prof <- ProfUserFnF
  MathTable <- NoTable
  GenBackend = "any"
INIT GInit
NEXT GNext
INVARIANT Export
