------------------------------ MODULE EventGen ------------------------------
(* Generator of input events over the universe: a state machine that builds one
   event per behaviour by filling slots (banks first, then every attribute of
   every object).  `tlc -simulate` with the run's seed samples the event space;
   the invariant Export prints every completed event.  Values are small dyadic
   rationals including negatives, zero and ties, so C++ double arithmetic on them
   is exact for + - *.  Weighted choices are written as sequences with repeats.  *)
EXTENDS Universe, Json
NoTable == [k \in {} |-> 0]

CONSTANTS MaxObj, Wide

VARIABLES store, attr, todo, nextid, objs
evars == <<store, attr, todo, nextid, objs>>

ValsOf(kind) ==
  CASE kind = "double" -> <<Num("double", -1, 1), Num("double", 0, 1), Num("double", 1, 2), Num("double", 2, 1), Num("double", 3, 1), Num("double", 2, 1)>>
    [] kind = "float"  -> <<Num("float", -1, 2), Num("float", 0, 1), Num("float", 1, 1), Num("float", 3, 2), Num("float", 1, 1)>>
    [] kind = "int"    -> <<Num("int", -1, 1), Num("int", 0, 1), Num("int", 1, 1), Num("int", 2, 1), Num("int", 1, 1)>>
    [] kind = "bool"   -> <<Num("bool", 0, 1), Num("bool", 1, 1)>>

\* Wide: also the further built-in collections, the singleton and the metadata-declared one (C06)
BankList == IF Wide
            THEN <<<<"A", "bk1">>, <<"A", "bk2">>, <<"B", "bk1">>, <<"X1", "bk1">>, <<"X1", "bk2">>, <<"X2", "bk1">>,
                   <<"S", "bk1">>, <<"Z", "bk1">>, <<"Z", "bk2">>>>
            ELSE <<<<"A", "bk1">>, <<"A", "bk2">>, <<"B", "bk1">>, <<"B", "bk2">>>>
\* -1 = the bank is not in the event (rare), otherwise the number of objects
SizeChoices == <<0, 1, 1, 2, 2, 2, 0, 1, 2, -1>>

Slot(s, a, b, id, m) == [s |-> s, a |-> a, b |-> b, id |-> id, m |-> m]
MethIdx(cls) == SelectSeq([i \in 1..Len(Methods) |-> i], LAMBDA i : Methods[i].cls = cls /\ Methods[i].mode # "enumarg")
AttrSlots(id, cls) == LET ms == MethIdx(cls) IN [i \in 1..Len(ms) |-> Slot("attr", cls, "", id, ms[i])]
RECURSIVE ObjSlots(_, _, _)
ObjSlots(first, n, cls) == IF n = 0 THEN <<>> ELSE AttrSlots(first, cls) \o ObjSlots(first + 1, n - 1, cls)
Ids(first, n) == [i \in 1..n |-> first + i - 1]

EInit == /\ store = [k \in {} |-> <<>>] /\ attr = [k \in {} |-> 0]
         /\ todo = [i \in 1..Len(BankList) |-> Slot("bank", BankList[i][1], BankList[i][2], 0, 0)]
         /\ nextid = 1
         /\ objs = [cl \in {"A", "B", "T", "M", "I", "Z"} |-> <<>>]

FillBank(sl) ==
  \E i \in DOMAIN SizeChoices :
    LET n == IF sl.a \in Singletons THEN 1 ELSE IF SizeChoices[i] > MaxObj THEN MaxObj ELSE SizeChoices[i]
        cls == CollClass[sl.a] IN
    IF n < 0
    THEN /\ todo' = Tail(todo) /\ UNCHANGED <<store, attr, nextid, objs>>
    ELSE /\ store' = store @@ (StoreKey(sl.a, sl.b) :> Ids(nextid, n))
         /\ objs' = [objs EXCEPT ![cls] = @ \o Ids(nextid, n)]
         /\ nextid' = nextid + n
         \* attributes are filled after all banks exist, so links can point anywhere
         /\ todo' = Tail(todo) \o ObjSlots(nextid, n, cls)
         /\ UNCHANGED attr

Target(kind) == IF kind \in {"R1", "R2"} THEN "T" ELSE kind
SeqsOver(vals, maxn) == UNION {[1..n -> {vals[i] : i \in DOMAIN vals}] : n \in 0..maxn}

FillAttr(sl) ==
  LET m == Methods[sl.m]
      key == AttrKey(sl.id, m.name) IN
  CASE m.ret = "num" ->
         \E i \in DOMAIN ValsOf(m.kind) :
            /\ attr' = attr @@ (key :> ValsOf(m.kind)[i])
            /\ todo' = Tail(todo) /\ UNCHANGED <<store, nextid, objs>>
    [] m.ret = "vecnum" ->
         \E s \in SeqsOver(ValsOf(m.kind), 2) :
            /\ attr' = attr @@ (key :> SeqV(s))
            /\ todo' = Tail(todo) /\ UNCHANGED <<store, nextid, objs>>
    [] m.ret = "vecobj" ->
         \E n \in 0..2 :
            /\ attr' = attr @@ (key :> SeqV([i \in 1..n |-> Obj(nextid + i - 1)]))
            /\ objs' = [objs EXCEPT ![m.kind] = @ \o Ids(nextid, n)]
            /\ nextid' = nextid + n
            /\ todo' = Tail(todo) \o ObjSlots(nextid, n, m.kind)
            /\ UNCHANGED store
    [] m.ret = "obj" ->
         \* null, or any object of the target class that is in a bank
         \* a smart reference (R1, R2) refers to a T object
         \E i \in 0..Len(objs[Target(m.kind)]) :
            /\ attr' = attr @@ (key :> Obj(IF i = 0 THEN 0 ELSE objs[Target(m.kind)][i]))
            /\ todo' = Tail(todo) /\ UNCHANGED <<store, nextid, objs>>

ENext == /\ todo # <<>>
         /\ LET sl == Head(todo) IN IF sl.s = "bank" THEN FillBank(sl) ELSE FillAttr(sl)

Export == todo = <<>> => PrintT(<<"EVENT", ToJson([store |-> store, attr |-> attr])>>)
=============================================================================
