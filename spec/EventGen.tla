------------------------------ MODULE EventGen ------------------------------
(* Generator of input events over the universe: a state machine that builds one
   event per behaviour by filling slots (banks first, then every attribute of
   every object).  `tlc -simulate` with the run's seed samples the event space;
   the invariant Export prints every completed event.  Values are small dyadic
   rationals including negatives, zero and ties, so C++ double arithmetic on them
   is exact for + - *.  Weighted choices are written as sequences with repeats.  *)
EXTENDS Universe, Json, IOUtils
NoTable == [k \in {} |-> 0]

CONSTANTS MaxObj, Wide

VARIABLES store, attr, todo, nextid, objs, done, coin
evars == <<store, attr, todo, nextid, objs, done, coin>>

ValsOf(kind) ==
  CASE kind = "double" -> <<Num("double", -1, 1), Num("double", 0, 1), Num("double", 1, 2), Num("double", 2, 1), Num("double", 3, 1), Num("double", 2, 1)>>
    [] kind = "float"  -> <<Num("float", -1, 2), Num("float", 0, 1), Num("float", 1, 1), Num("float", 3, 2), Num("float", 1, 1)>>
    [] kind = "int"    -> <<Num("int", -1, 1), Num("int", 0, 1), Num("int", 1, 1), Num("int", 2, 1), Num("int", 1, 1)>>
    [] kind = "bool"   -> <<Num("bool", 0, 1), Num("bool", 1, 1)>>

\* Wide: also the further built-in collections, the singleton and the metadata-declared one (C06)
BankList == IF Wide
            THEN <<<<"A", "bk1">>, <<"A", "bk2">>, <<"B", "bk1">>, <<"X1", "bk1">>, <<"X1", "bk2">>, <<"X2", "bk1">>,
                   <<"S", "bk1">>, <<"Z", "bk1">>, <<"Z", "bk2">>>>
            ELSE <<<<"A", "bk1">>, <<"A", "bk2">>, <<"B", "bk1">>, <<"B", "bk2">>>>
\* -1 = the bank is not in the event (rare), otherwise the number of objects
SizeChoices == <<0, 1, 1, 2, 2, 2, 0, 1, 2, -1>>

(* Size plans.  Random sizes alone leave holes in a small sample (a bank that is present and EMPTY, every bank with
   exactly one object, ...).  With VP_PLAN = k > 0 in the environment the bank sizes are not chosen but read off the
   k-th pattern (repeated cyclically over the bank list); the attributes stay random.  The harness asks for one event
   per plan in addition to the free sample, so every run sees every size class of every bank.                       *)
SizePlans == << <<0>>, <<1>>, <<2>>, <<0, 1, 2, 1, 0, 2>>, <<2, 0, 1>>, <<1, 2, 0, 0>>, <<-1, 1, 2, 0>>, <<1, -1, 0, 2>> >>
Digit(c) == CASE c = "0" -> 0 [] c = "1" -> 1 [] c = "2" -> 2 [] c = "3" -> 3 [] c = "4" -> 4 [] c = "5" -> 5
              [] c = "6" -> 6 [] c = "7" -> 7 [] c = "8" -> 8 [] OTHER -> 0
PlanIdx == IF "VP_PLAN" \in DOMAIN IOEnv THEN Digit(IOEnv.VP_PLAN) ELSE 0
PlannedSize(bankpos) == LET pl == SizePlans[PlanIdx] IN pl[((bankpos - 1) % Len(pl)) + 1]
BankPos(a, b) == CHOOSE i \in DOMAIN BankList : BankList[i] = <<a, b>>
\* <<coin, size>>: the coin makes the repeated entries of SizeChoices distinct successors, so the simulator (uniform over
\* distinct successor states) honours the weights
SizesFor(sl) == IF PlanIdx = 0 THEN {<<i, SizeChoices[i]>> : i \in DOMAIN SizeChoices} ELSE {<<0, PlannedSize(BankPos(sl.a, sl.b))>>}

Slot(s, a, b, id, m) == [s |-> s, a |-> a, b |-> b, id |-> id, m |-> m]
MethIdx(cls) == SelectSeq([i \in 1..Len(Methods) |-> i], LAMBDA i : Methods[i].cls = cls /\ Methods[i].mode # "enumarg")
AttrSlots(id, cls) == LET ms == MethIdx(cls) IN [i \in 1..Len(ms) |-> Slot("attr", cls, "", id, ms[i])]
RECURSIVE ObjSlots(_, _, _)
ObjSlots(first, n, cls) == IF n = 0 THEN <<>> ELSE AttrSlots(first, cls) \o ObjSlots(first + 1, n - 1, cls)
Ids(first, n) == [i \in 1..n |-> first + i - 1]

EInit == /\ store = [k \in {} |-> <<>>] /\ attr = [k \in {} |-> 0]
         /\ todo = [i \in 1..Len(BankList) |-> Slot("bank", BankList[i][1], BankList[i][2], 0, 0)]
         /\ nextid = 1
         /\ objs = [cl \in {"A", "B", "T", "M", "I", "Z"} |-> <<>>]
         /\ done = FALSE /\ coin = 0

FillBank(sl) ==
  \E csz \in SizesFor(sl) :
    LET sz == csz[2]
        n == IF sl.a \in Singletons THEN 1 ELSE IF sz > MaxObj THEN MaxObj ELSE sz
        cls == CollClass[sl.a] IN
    /\ coin' = csz[1]
    /\ IF n < 0
       THEN /\ todo' = Tail(todo) /\ UNCHANGED <<store, attr, nextid, objs>>
       ELSE /\ store' = store @@ (StoreKey(sl.a, sl.b) :> Ids(nextid, n))
            /\ objs' = [objs EXCEPT ![cls] = @ \o Ids(nextid, n)]
            /\ nextid' = nextid + n
            \* attributes are filled after all banks exist, so links can point anywhere
            /\ todo' = Tail(todo) \o ObjSlots(nextid, n, cls)
            /\ UNCHANGED attr

Target(kind) == IF kind \in {"R1", "R2"} THEN "T" ELSE kind
SeqsOver(vals, maxn) == UNION {[1..n -> {vals[i] : i \in DOMAIN vals}] : n \in 0..maxn}

FillAttr(sl) ==
  LET m == Methods[sl.m]
      key == AttrKey(sl.id, m.name) IN
  CASE m.ret = "num" ->
         \E i \in DOMAIN ValsOf(m.kind) :
            /\ attr' = attr @@ (key :> ValsOf(m.kind)[i])
            /\ todo' = Tail(todo) /\ UNCHANGED <<store, nextid, objs>>
    [] m.ret = "vecnum" ->
         \E s \in SeqsOver(ValsOf(m.kind), 2) :
            /\ attr' = attr @@ (key :> SeqV(s))
            /\ todo' = Tail(todo) /\ UNCHANGED <<store, nextid, objs>>
    [] m.ret = "vecobj" ->
         \E n \in 0..2 :
            /\ attr' = attr @@ (key :> SeqV([i \in 1..n |-> Obj(nextid + i - 1)]))
            /\ objs' = [objs EXCEPT ![m.kind] = @ \o Ids(nextid, n)]
            /\ nextid' = nextid + n
            /\ todo' = Tail(todo) \o ObjSlots(nextid, n, m.kind)
            /\ UNCHANGED store
    [] m.ret = "obj" ->
         \* null, or any object of the target class that is in a bank
         \* a smart reference (R1, R2) refers to a T object
         \E i \in 0..Len(objs[Target(m.kind)]) :
            /\ attr' = attr @@ (key :> Obj(IF i = 0 THEN 0 ELSE objs[Target(m.kind)][i]))
            /\ todo' = Tail(todo) /\ UNCHANGED <<store, nextid, objs>>

(* The simulator evaluates invariants on EVERY successor it generates, not only on the one the walk takes: printing
   at todo = <<>> also printed all the siblings of the last step (and so favoured events that are complete early: banks
   missing or empty).  The event is printed in a step of its own, which only the walk itself takes.                    *)
ENext == \/ /\ todo # <<>>
            /\ LET sl == Head(todo) IN IF sl.s = "bank" THEN FillBank(sl) ELSE (FillAttr(sl) /\ UNCHANGED coin)
            /\ UNCHANGED done
         \/ /\ todo = <<>> /\ ~done /\ done' = TRUE
            /\ UNCHANGED <<store, attr, todo, nextid, objs, coin>>

Export == done => PrintT(<<"EVENT", ToJson([store |-> store, attr |-> attr])>>)
=============================================================================
