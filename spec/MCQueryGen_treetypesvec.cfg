CONSTANTS
  MaxSize = 9
  Prof <- ProfTreeTypesVec
  MathTable <- NoTable
  GenBackend = "any"
INIT GInit
NEXT GNext
INVARIANT Export
