CONSTANTS
  MaxSize = 15
  Prof <- ProfRows2
  MathTable <- NoTable
  GenBackend = "any"
INIT GInit
NEXT GNext
INVARIANT Export
