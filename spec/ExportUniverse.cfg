CONSTANT MathTable <- NoTable
INIT Init
NEXT Next
