CONSTANTS
  MaxSize = 9
  Prof <- ProfColl
  MathTable <- NoTable
  GenBackend = "atlas"
INIT GInit
NEXT GNext
INVARIANT Export
