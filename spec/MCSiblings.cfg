CONSTANTS
  MaxSize = 1
  Prof <- ProfShadow
  MathTable <- NoTable
  GenBackend = "any"
INIT SInit
NEXT SNext
INVARIANT ExportSiblings
