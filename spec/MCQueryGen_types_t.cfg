CONSTANTS
  MaxSize = 12
  Prof <- ProfTypes
  MathTable <- NoTable
  GenBackend = "any"
INIT GInit
NEXT GNext
INVARIANT Export
