CONSTANTS
  MaxSize = 15
  Prof <- ProfArithIf
  MathTable <- NoTable
  GenBackend = "any"
INIT GInit
NEXT GNext
INVARIANT Export
