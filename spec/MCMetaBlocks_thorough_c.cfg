CONSTANTS
  Names <- NamesQ
  Unsent = "z"
  Scripts <- ScriptsQ
  MaxLen = 4
  MaxDeps = 1
INIT Init
NEXT Next
INVARIANT LoopMeetsSpecOutcome
INVARIANT LoopMeetsSpecScript
INVARIANT LoopNeverDrops
