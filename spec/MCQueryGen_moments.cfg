CONSTANTS
  MaxSize = 10
  Prof <- ProfMoments
  MathTable <- NoTable
  GenBackend = "atlas"
INIT GInit
NEXT GNext
INVARIANT Export
