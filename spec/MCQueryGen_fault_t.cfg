CONSTANTS
  MaxSize = 13
  Prof <- ProfFault
  MathTable <- NoTable
INIT GInit
NEXT GNext
INVARIANT Export
