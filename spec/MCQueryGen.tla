----------------------------- MODULE MCQueryGen -----------------------------
(* Profiles (which productions are switched on) for the generation runs. *)
EXTENDS QueryGen

NoTable == [x \in {} |-> 0]

Base == [classes |-> {"A"}, methods |-> {"pt", "n"}, consts |-> {<<"int", 1, 1>>},
         iconsts |-> {0, 1}, binops |-> {}, unops |-> {}, cmpops |-> {">"}, boolops |-> {},
         not |-> FALSE, boolConst |-> FALSE, ifexp |-> FALSE, aggs |-> {}, first |-> FALSE,
         index |-> FALSE, math |-> {}, colls |-> {<<"A", "bk1">>}, select |-> TRUE, where |-> TRUE,
         selectmany |-> FALSE, range |-> FALSE, rows |-> {"seq"}, topmid |-> {},
         topwhere |-> FALSE, evwhere |-> FALSE]

\* C01 core: the LINQ operators and their compositions
ProfCore == [Base EXCEPT !.classes = {"A", "T"}, !.methods = {"pt", "n", "trks", "vals"},
               !.binops = {"+"}, !.aggs = {"Count", "Sum", "Max", "Aggregate"}, !.first = TRUE,
               !.selectmany = TRUE, !.rows = {"seq", "seqseq", "tuple", "dict"},
               !.ifexp = TRUE, !.boolops = {"And"}, !.topwhere = TRUE, !.evwhere = TRUE,
               !.topmid = {S(O("A"))}, !.range = TRUE, !.index = TRUE]

ProfTiny == Base
=============================================================================
