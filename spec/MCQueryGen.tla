----------------------------- MODULE MCQueryGen -----------------------------
(* Profiles (which productions are switched on) for the generation runs. *)
EXTENDS QueryGen

NoTable == [x \in {} |-> 0]

Base == [classes |-> {"A"}, methods |-> {"pt", "n"}, consts |-> {<<"int", 1, 1>>},
         iconsts |-> {0, 1}, binops |-> {}, unops |-> {}, cmpops |-> {">"}, boolops |-> {},
         not |-> FALSE, boolConst |-> FALSE, ifexp |-> FALSE, aggs |-> {}, first |-> FALSE,
         index |-> FALSE, math |-> {}, colls |-> {<<"A", "bk1">>}, select |-> TRUE, where |-> TRUE,
         selectmany |-> FALSE, range |-> FALSE, rows |-> {"seq"}, topmid |-> {},
         topwhere |-> FALSE, evwhere |-> FALSE, rootnames |-> {}, start |-> "top", boolAsNum |-> FALSE, mindone |-> 0, singles |-> {}, userfns |-> {}, enums |-> FALSE]

\* C01 core: the LINQ operators and their compositions
ProfCore == [Base EXCEPT !.classes = {"A", "T"}, !.methods = {"pt", "n", "trks", "vals"},
               !.binops = {"+"}, !.aggs = {"Count", "Sum", "Max", "Aggregate"}, !.first = TRUE,
               !.selectmany = TRUE, !.rows = {"seq", "seqseq", "tuple", "dict"},
               !.ifexp = TRUE, !.boolops = {"And"}, !.topwhere = TRUE, !.evwhere = TRUE,
               !.topmid = {S(O("A"))}, !.range = TRUE, !.index = TRUE]

ProfTiny == Base

\* C03: every terminal form x element kind, implicit and explicit (AsROOTTTree) trees
ProfSchema == [Base EXCEPT !.methods = {"pt", "n", "m", "ok"}, !.consts = {<<"int", 1, 1>>, <<"double", 1, 2>>},
                 !.binops = {"/"}, !.ifexp = TRUE, !.aggs = {"Count"}, !.where = FALSE,
                 !.rows = {"bool", "seq", "seqseq", "tuple", "list", "dict"}, !.rootnames = {1, 2}]

\* C13: operators x operand kinds (int literal, int count, float, double, bool)
ProfArith == [Base EXCEPT !.methods = {"pt", "m", "n", "ok"}, !.consts = {<<"int", 2, 1>>, <<"int", 7, 1>>, <<"double", 1, 2>>},
                !.binops = {"+", "-", "*", "/", "%", "**"}, !.unops = {"-", "+"}, !.not = TRUE,
                !.cmpops = {"<", "<=", ">", ">=", "==", "!="}, !.boolConst = TRUE,
                !.aggs = {"Count", "Sum", "Min", "Max", "Aggregate"}, !.ifexp = TRUE,
                !.select = FALSE, !.where = FALSE, !.rows = {"bool"}, !.first = FALSE, !.colls = {},
                !.start = "perobj", !.boolAsNum = TRUE, !.methods = {"pt", "m", "n", "ok", "vals"}]

\* C13 core table: every binary / comparison operator over every pair of operand kinds, exhaustively
ProfArithTable == [ProfArith EXCEPT !.unops = {}, !.not = FALSE, !.aggs = {"Count"}, !.ifexp = FALSE, !.boolConst = FALSE]

\* C08 (simulation): deep chains of Where/Select/Count over nested sequences, where shadowing matters
ProfShadow == [Base EXCEPT !.classes = {"A", "T"}, !.methods = {"pt", "trks"}, !.aggs = {"Count"},
                 !.rows = {"seq"}, !.mindone = 14]

\* C12: every documented math function (README.md, "Math" section; nan and remquo take a string /
\* a pointer and cannot be called from a query: MAY), standalone, inside arithmetic and in a comparison
MathFns1 == {"sin", "cos", "tan", "acos", "asin", "atan", "sinh", "cosh", "tanh", "asinh", "acosh", "atanh",
             "exp", "log", "ln", "log10", "exp2", "expm1", "ilogb", "log1p", "log2", "sqrt", "cbrt", "erf", "erfc",
             "tgamma", "lgamma", "ceil", "floor", "trunc", "round", "rint", "nearbyint", "fabs", "abs"}
MathFns2 == {"atan2", "ldexp", "scalbn", "scalbln", "pow", "hypot", "fmod", "remainder", "copysign", "nextafter",
             "nexttoward", "fdim", "fmax", "fmin"}
MathFns3 == {"fma"}
DocumentedMath == {<<f, 1>> : f \in MathFns1} \cup {<<f, 2>> : f \in MathFns2} \cup {<<f, 3>> : f \in MathFns3}
ProfMath == [Base EXCEPT !.methods = {"pt"}, !.consts = {<<"int", 2, 1>>, <<"double", 1, 2>>},
               !.binops = {"+"}, !.cmpops = {">"}, !.math = DocumentedMath, !.select = FALSE, !.where = FALSE,
               !.rows = {"bool"}, !.colls = {}, !.start = "perobj"]

\* C06: every collection of the backend in scope x banks (bk3 is in no event), singleton, declared collection
AllBanks(cs) == {<<c, b>> : c \in cs, b \in {"bk1", "bk2", "bk3"}}
ProfColl == [Base EXCEPT !.classes = {"A", "B", "T", "M", "I"}, !.methods = {"pt", "runNumber"}, !.aggs = {"Count"},
               !.where = FALSE, !.rows = {"seq", "tuple"}, !.colls = AllBanks({"A", "B", "X1", "X2"}),
               !.singles = {<<"S", "bk1">>, <<"S", "bk3">>}]
ProfCollZ == [ProfColl EXCEPT !.classes = {"A", "Z"}, !.colls = AllBanks({"Z"}) \cup {<<"A", "bk1">>}, !.singles = {}]

\* C11: every supplied C++ function x actual arguments that contain the other parameters' names
AllFnIds == {UserFns[i].id : i \in DOMAIN UserFns}
ProfUserFn == [Base EXCEPT !.methods = {"pt", "eta", "a", "b", "n", "m"}, !.consts = {<<"int", 2, 1>>}, !.select = FALSE, !.where = FALSE,
                 !.rows = {"seq"}, !.colls = {}, !.start = "perobj", !.userfns = AllFnIds, !.cmpops = {}]

\* C10: the declared-signature space: object by value / pointer / double pointer, collection pointer,
\* smart references with 1 and 2 extra dereferences, a declared tree type, an enum (output, comparison, argument)
ProfTypes == [Base EXCEPT !.classes = {"A", "T", "R1", "R2"},
                !.methods = {"pt", "q", "tv", "tpp", "trks", "link", "vals", "valsp", "tref", "trefref", "code", "color"},
                !.consts = {<<"int", 1, 1>>}, !.binops = {"+"}, !.aggs = {"Count", "Sum"}, !.first = TRUE, !.index = TRUE,
                !.select = TRUE, !.where = FALSE, !.rows = {"bool"}, !.colls = {}, !.start = "perobj", !.enums = TRUE]

\* C10, second profile: the same declared types as elements of vector columns (declared tree types must
\* reach std::vector<...> columns too)
ProfTypesVec == [Base EXCEPT !.classes = {"A", "T", "R1"}, !.methods = {"pt", "q", "tv", "trks", "vals", "valsp", "tref", "code", "color"},
                   !.where = FALSE, !.rows = {"seq", "seqseq"}, !.enums = TRUE]

\* C01, second profile: the func_adl idiom of carrying several collections through a tuple or a dict:
\*   ds.Select(lambda e: (e.A("bk1"), e.B("bk1"))).Select(lambda t: t[0].Select(...) ...)
ProfTuples == [Base EXCEPT !.classes = {"A", "B"}, !.methods = {"pt"}, !.aggs = {"Count"}, !.where = TRUE,
                 !.colls = {<<"A", "bk1">>, <<"B", "bk1">>}, !.rows = {"seq", "tuple"},
                 !.topmid = {TUP(S(O("A")), S(O("B"))), DCT(S(O("A")), S(O("B")))}]

\* C04: partial operations (First, index, link dereference) under guards
ProfFault == [Base EXCEPT !.methods = {"pt", "vals", "link"}, !.consts = {<<"int", 0, 1>>},
                !.iconsts = {0, 1, 2}, !.cmpops = {">"}, !.boolops = {"And", "Or"}, !.ifexp = TRUE,
                !.aggs = {"Count"}, !.first = TRUE, !.index = TRUE, !.rows = {"bool", "seq"},
                !.evwhere = TRUE]

\* C04, second profile: guards (and/or, conditional) around First() with the guarded value used inside something
\* larger (a function call: its value is placed at the scope current when it is translated), over a minimal alphabet so that the bound reaches 13 tokens exhaustively
ProfGuard == [Base EXCEPT !.methods = {"pt"}, !.consts = {<<"int", 0, 1>>}, !.cmpops = {">", "=="}, !.boolops = {"And", "Or"},
                !.ifexp = TRUE, !.aggs = {"Count"}, !.first = TRUE, !.math = {<<"fabs", 1>>}, !.rows = {"bool"},
                !.select = FALSE, !.where = FALSE]

=============================================================================
