----------------------------- MODULE MCQueryGen -----------------------------
(* Profiles (which productions are switched on) for the generation runs. *)
EXTENDS QueryGen

NoTable == [x \in {} |-> 0]

Base == [classes |-> {"A"}, methods |-> {"pt", "n"}, consts |-> {<<"int", 1, 1>>},
         iconsts |-> {0, 1}, binops |-> {}, unops |-> {}, cmpops |-> {">"}, boolops |-> {},
         not |-> FALSE, boolConst |-> FALSE, ifexp |-> FALSE, aggs |-> {}, first |-> FALSE,
         index |-> FALSE, math |-> {}, colls |-> {<<"A", "bk1">>}, select |-> TRUE, where |-> TRUE,
         selectmany |-> FALSE, range |-> FALSE, rows |-> {"seq"}, topmid |-> {},
         topwhere |-> FALSE, evwhere |-> FALSE, rootnames |-> {}, start |-> "top", boolAsNum |-> FALSE, mindone |-> 0, singles |-> {}, userfns |-> {}, enums |-> FALSE, letcall |-> {}, must |-> {}, mustany |-> {}, nonnull |-> FALSE, letseq |-> {}, letfn |-> {}]

\* C01 core: the LINQ operators and their compositions
ProfCore == [Base EXCEPT !.classes = {"A", "T"}, !.methods = {"pt", "n", "trks", "vals"},
               !.binops = {"+"}, !.aggs = {"Count", "Sum", "Max", "Aggregate"}, !.first = TRUE,
               !.selectmany = TRUE, !.rows = {"seq", "seqseq", "tuple", "dict"},
               !.ifexp = TRUE, !.boolops = {"And"}, !.topwhere = TRUE, !.evwhere = TRUE,
               !.topmid = {S(O("A"))}, !.range = TRUE, !.index = TRUE]

ProfTiny == Base

\* C01: list-of-lists (and list) columns whose INNER sequence is flattened (SelectMany) inside a per-object Select:
\* where the inner vector is declared and pushed decides the shape of the column
ProfInnerMany == [Base EXCEPT !.classes = {"A", "T"}, !.methods = {"pt", "trks", "vals"}, !.selectmany = TRUE, !.where = FALSE,
                    !.cmpops = {}, !.consts = {}, !.rows = {"seq", "seqseq"}, !.must = {"SelectMany"}]

\* C03: every terminal form x element kind, implicit and explicit (AsROOTTTree) trees
\* (the floating constant is a WHOLE number, 2.0: its column must still be a floating column)
ProfSchema == [Base EXCEPT !.methods = {"pt", "n", "m", "ok"}, !.consts = {<<"int", 1, 1>>, <<"double", 2, 1>>},
                 !.binops = {"/"}, !.ifexp = TRUE, !.aggs = {"Count"}, !.where = FALSE,
                 !.rows = {"bool", "seq", "seqseq", "tuple", "list", "dict"}, !.rootnames = {1, 2}]

\* C03 / C13: SEVERAL aggregates (and plain literals) side by side in one row: a floating Sum next to a Count next to a 0 -
\* every column keeps its own kind whatever its neighbours are and in whatever order they come
ProfAggRows == [Base EXCEPT !.methods = {"pt", "vals"}, !.aggs = {"Count", "Sum"}, !.consts = {<<"int", 0, 1>>}, !.where = FALSE,
                  !.cmpops = {}, !.rows = {"tuple"}, !.must = {"Sum", "Tuple"}]

\* C13: operators x operand kinds (int literal, int count, float, double, bool)
ProfArith == [Base EXCEPT !.methods = {"pt", "m", "n", "ok"}, !.consts = {<<"int", 2, 1>>, <<"int", 7, 1>>, <<"double", 1, 2>>},
                !.binops = {"+", "-", "*", "/", "%", "**"}, !.unops = {"-", "+"}, !.not = TRUE,
                !.cmpops = {"<", "<=", ">", ">=", "==", "!="}, !.boolConst = TRUE,
                !.aggs = {"Count", "Sum", "Min", "Max", "Aggregate"}, !.ifexp = TRUE,
                !.select = FALSE, !.where = FALSE, !.rows = {"bool"}, !.first = FALSE, !.colls = {},
                !.start = "perobj", !.boolAsNum = TRUE, !.methods = {"pt", "m", "n", "ok", "vals"}]

\* C13, third profile: conditionals - as a column (integer arms, mixed arms) and inside the body of an Aggregate, where
\* the running value passes through one arm
ProfArithIf == [Base EXCEPT !.methods = {"ok", "vals"}, !.consts = {<<"int", 0, 1>>, <<"double", 1, 2>>}, !.iconsts = {0},
                  !.binops = {"+"}, !.cmpops = {}, !.ifexp = TRUE, !.aggs = {"Aggregate"}, !.select = FALSE, !.where = FALSE,
                  !.rows = {"bool"}, !.colls = {}, !.start = "perobj", !.must = {"If"}]

\* C13, fourth profile: every small expression of the arithmetic grammar DIVIDED by an integer constant (and dividing one):
\* whatever the translator believes the type of the expression to be, the C++ type it really has decides whether this
\* division truncates
ProfIntDiv == [ProfArith EXCEPT !.start = "perobj_div", !.iconsts = {2}, !.consts = {<<"int", 3, 1>>},
                 !.methods = {"n", "ok", "vals"}, !.aggs = {"Count", "Sum", "Aggregate"}, !.cmpops = {}, !.not = FALSE, !.boolConst = FALSE]
ProfIntRDiv == [ProfIntDiv EXCEPT !.start = "perobj_rdiv"]

\* C13 core table: every binary / comparison operator over every pair of operand kinds, exhaustively
ProfArithTable == [ProfArith EXCEPT !.unops = {}, !.not = FALSE, !.aggs = {"Count"}, !.ifexp = FALSE, !.boolConst = FALSE]

\* C08 (simulation): deep chains of Where/Select/Count over nested sequences, where shadowing matters
ProfShadow == [Base EXCEPT !.classes = {"A", "T"}, !.methods = {"pt", "trks"}, !.aggs = {"Count"},
                 !.rows = {"seq"}, !.mindone = 14]

\* C08 (simulation): the same with binary constructs, so that one lambda contains SEVERAL sibling lambdas
\* (j.trks().Where(..).Count() > 1 and j.trks().Where(..).Count() > 0, Count() + Count())
ProfSiblings == [ProfShadow EXCEPT !.boolops = {"And"}, !.binops = {"+"}, !.mindone = 18]

\* C12: every documented math function (README.md, "Math" section; nan and remquo take a string /
\* a pointer and cannot be called from a query: MAY), standalone, inside arithmetic and in a comparison
MathFns1 == {"sin", "cos", "tan", "acos", "asin", "atan", "sinh", "cosh", "tanh", "asinh", "acosh", "atanh",
             "exp", "log", "ln", "log10", "exp2", "expm1", "ilogb", "log1p", "log2", "sqrt", "cbrt", "erf", "erfc",
             "tgamma", "lgamma", "ceil", "floor", "trunc", "round", "rint", "nearbyint", "fabs", "abs"}
MathFns2 == {"atan2", "ldexp", "scalbn", "scalbln", "pow", "hypot", "fmod", "remainder", "copysign", "nextafter",
             "nexttoward", "fdim", "fmax", "fmin"}
MathFns3 == {"fma"}
DocumentedMath == {<<f, 1>> : f \in MathFns1} \cup {<<f, 2>> : f \in MathFns2} \cup {<<f, 3>> : f \in MathFns3}
ProfMath == [Base EXCEPT !.methods = {"pt"}, !.consts = {<<"int", 2, 1>>, <<"int", -1, 1>>, <<"double", 1, 2>>},
               !.binops = {"+"}, !.cmpops = {">"}, !.math = DocumentedMath, !.select = FALSE, !.where = FALSE,
               !.rows = {"bool"}, !.colls = {}, !.start = "perobj"]

\* C12, third profile: math functions whose ARGUMENTS open a deeper block of the emitted code (a First()), at event level,
\* standalone, inside arithmetic on either side, nested, and as one column of several
ProfMathFirst == [Base EXCEPT !.methods = {"pt"}, !.consts = {<<"int", 2, 1>>}, !.binops = {"+"}, !.cmpops = {}, !.where = FALSE, !.select = FALSE,
                    !.first = TRUE, !.math = {<<"sqrt", 1>>, <<"fabs", 1>>, <<"atan2", 2>>}, !.rows = {"tuple"}, !.must = {"Math", "First"}]

\* C12, fourth profile: INTEGER arguments, the result divided (a result that is secretly integer shows as integer division)
ProfMathInt == [Base EXCEPT !.methods = {}, !.colls = {}, !.select = FALSE, !.where = FALSE, !.cmpops = {},
                  !.consts = {<<"int", -1, 1>>, <<"int", 2, 1>>}, !.binops = {"/"},
                  !.math = {<<f, 2>> : f \in MathFns2} \cup {<<"fabs", 1>>, <<"abs", 1>>, <<"sqrt", 1>>, <<"ceil", 1>>, <<"floor", 1>>, <<"round", 1>>},
                  !.rows = {"bool"}, !.must = {"Math", "Bin"}]

\* C06: every collection of the backend in scope x banks (bk3 is in no event), singleton, declared collection
AllBanks(cs) == {<<c, b>> : c \in cs, b \in {"bk1", "bk2", "bk3"}}
ProfColl == [Base EXCEPT !.classes = {"A", "B", "T", "M", "I"}, !.methods = {"pt", "runNumber"}, !.aggs = {"Count"},
               !.where = FALSE, !.rows = {"seq", "tuple"}, !.colls = AllBanks({"A", "B", "X1", "X2"}),
               !.singles = {<<"S", "bk1">>, <<"S", "bk3">>}]
ProfCollZ == [ProfColl EXCEPT !.classes = {"A", "Z"}, !.colls = AllBanks({"Z"}) \cup {<<"A", "bk1">>}, !.singles = {}]

\* C11: every supplied C++ function x actual arguments that contain the other parameters' names
AllFnIds == {UserFns[i].id : i \in DOMAIN UserFns}
ProfUserFn == [Base EXCEPT !.methods = {"pt", "eta", "a", "b", "n", "m", "link"}, !.consts = {<<"int", 2, 1>>}, !.select = FALSE, !.where = FALSE,
                 !.rows = {"seq"}, !.colls = {}, !.start = "perobj", !.userfns = AllFnIds, !.cmpops = {}]

\* C11, second profile: actual arguments whose translation opens a deeper scope (a First()), with the call's value
\* used directly as a column or inside another call
ProfUserFnF == [ProfUserFn EXCEPT !.methods = {"pt", "vals"}, !.first = TRUE, !.must = {"First", "UserFn"}]
\* ... and at event level, where the value is one column of several (consumed at the scope the call was entered in)
ProfUserFnE == [Base EXCEPT !.methods = {"pt"}, !.consts = {<<"int", 2, 1>>}, !.cmpops = {}, !.where = FALSE, !.first = TRUE,
                  !.rows = {"seq", "tuple"}, !.userfns = {"vp_inc_res", "vp_incl", "vp_lin_a_b"}, !.must = {"First", "UserFn"}]

\* C11, fourth profile: the SAME method-style function applied to DIFFERENT receivers with identical arguments in one
\* expression (j.f(2) - j.link().f(2)): every call must see its own receiver
ProfUserFnM == [ProfUserFn EXCEPT !.methods = {"link"}, !.userfns = {"vp_meth"}, !.binops = {"-"}, !.must = {"Bin", "UserFn"}]

\* C11, fifth profile: the value of a supplied function bound ONCE (a lambda applied on the spot) and used SEVERAL times, the
\* first time inside conditionally executed code (an arm of a conditional, the second operand of and / or), again outside it:
\* the code block must run where every use can see its result
ProfUserFnLet == [Base EXCEPT !.methods = {"pt", "ok"}, !.consts = {<<"int", 0, 1>>}, !.binops = {"+"}, !.cmpops = {}, !.ifexp = TRUE,
                    !.select = FALSE, !.where = FALSE, !.rows = {"bool"}, !.colls = {}, !.start = "perobj",
                    !.letfn = {"vp_inc_res"}, !.must = {"Let", "If"}]

\* C10: the declared-signature space: object by value / pointer / double pointer, collection pointer,
\* smart references with 1 and 2 extra dereferences, a declared tree type, an enum (output, comparison, argument)
ProfTypes == [Base EXCEPT !.classes = {"A", "T", "R1", "R2"},
                !.methods = {"pt", "q", "tv", "tpp", "trks", "link", "vals", "valsp", "tref", "trefref", "trefrefp", "trefpp", "code", "color", "isPFMuon"},
                !.consts = {<<"int", 1, 1>>}, !.binops = {"+"}, !.aggs = {"Count", "Sum"}, !.first = TRUE, !.index = TRUE,
                !.select = TRUE, !.where = FALSE, !.rows = {"bool"}, !.colls = {}, !.start = "perobj", !.enums = TRUE]

\* C10, second profile: the same declared types as elements of vector columns (declared tree types must
\* reach std::vector<...> columns too)
ProfTypesVec == [Base EXCEPT !.classes = {"A", "T", "R1"}, !.methods = {"pt", "q", "tv", "trks", "vals", "valsp", "tref", "code", "color", "isPFMuon"},
                   !.where = FALSE, !.rows = {"seq", "seqseq"}, !.enums = TRUE]

\* C03: the subset of it whose columns are numbers with a declared tree / element type
ProfTreeTypesVec == [ProfTypesVec EXCEPT !.classes = {"A", "T"}, !.methods = {"pt", "q", "trks", "vals", "code", "color", "isPFMuon"}]

\* C01, second profile: the func_adl idiom of carrying several collections through a tuple or a dict:
\*   ds.Select(lambda e: (e.A("bk1"), e.B("bk1"))).Select(lambda t: t[0].Select(...) ...)
ProfTuples == [Base EXCEPT !.classes = {"A", "B"}, !.methods = {"pt"}, !.aggs = {"Count"}, !.where = TRUE,
                 !.colls = {<<"A", "bk1">>, <<"B", "bk1">>}, !.rows = {"seq", "tuple"},
                 !.topmid = {TUP(S(O("A")), S(O("B"))), DCT(S(O("A")), S(O("B")))}]

\* C01, third profile: lambdas applied on the spot, (lambda x: body)(arg), with a number, an object or a
\* sequence as the argument, nested, and shadowing an enclosing parameter
ProfLet == [Base EXCEPT !.classes = {"A"}, !.methods = {"pt", "n", "vals"}, !.binops = {"+"}, !.aggs = {"Count", "Sum"},
              !.where = TRUE, !.rows = {"seq"}, !.letcall = {N, O("A"), S(O("A")), S(N)}, !.must = {"Let"}]

\* C01, fourth profile (ATLAS only): the documented jet accessors getAttributeFloat / getAttributeVectorFloat,
\* as columns, inside arithmetic, aggregated, indexed, behind First() and a link
ProfMoments == [Base EXCEPT !.methods = {"pt", "momf", "momv", "link"}, !.binops = {"+"}, !.aggs = {"Count", "Sum"}, !.first = TRUE,
                  !.index = TRUE, !.rows = {"seq", "tuple"}, !.mustany = {"momf", "momv"}]

\* C02 / C03 / C01: rows of several columns whose values are produced in different blocks of the emitted code
\* (a value taken from First(), a count, a sequence), over a minimal alphabet so that two such columns fit the bound
ProfRows == [Base EXCEPT !.methods = {"pt"}, !.consts = {}, !.cmpops = {}, !.aggs = {"Count"}, !.first = TRUE, !.where = FALSE,
               !.rows = {"seq", "tuple"}, !.must = {"Tuple"}]

\* C05 / C04: the same over two banks, so that one column can be filled while the First() of another faults
ProfRows2 == [ProfRows EXCEPT !.colls = {<<"A", "bk1">>, <<"A", "bk2">>}, !.must = {"Tuple", "First"}]

\* C03 / C01: rows built from the element of a stream of numbers, so that ONE value can feed several columns
\*   ds.SelectMany(e: e.A().Select(j: j.pt())).Select(p: (p, p)),  {'c1': p, 'c2': p + 1},  [p, p]
ProfRowsN == [Base EXCEPT !.methods = {"pt"}, !.binops = {"+"}, !.cmpops = {}, !.aggs = {}, !.where = TRUE, !.topwhere = TRUE, !.selectmany = TRUE,
                !.rows = {"tuple", "list", "dict"}, !.topmid = {N}, !.rootnames = {2}, !.mustany = {"Tuple", "List", "Dict"}]

\* C01, fifth profile: a scalar computed ONCE per event (bound by a lambda applied on the spot) written bare as a column of
\* rows that come from a filtered sequence: ds.SelectMany(e: (lambda n: jets.Where(..).Select(j: (j.pt(), n)))(jets.Count()))
ProfLetRows == [Base EXCEPT !.methods = {"pt"}, !.consts = {}, !.aggs = {"Count"}, !.where = TRUE, !.selectmany = TRUE,
                  !.rows = {"tuple"}, !.letseq = {N}, !.must = {"Let", "Tuple", "Where"}]

\* C01 / C02 / C04 (simulation): everything at once - random deep derivations over the union of the features above,
\* for the interactions no focused profile was written for
ProfAll == [Base EXCEPT !.classes = {"A", "T"}, !.methods = {"pt", "n", "vals", "trks", "link"},
              !.consts = {<<"int", 1, 1>>, <<"double", 1, 2>>}, !.iconsts = {0, 1}, !.binops = {"+", "/"}, !.unops = {"-"},
              !.cmpops = {">", "=="}, !.boolops = {"And", "Or"}, !.not = TRUE, !.ifexp = TRUE, !.aggs = {"Count", "Sum", "Aggregate"},
              !.first = TRUE, !.index = TRUE, !.math = {<<"sqrt", 1>>, <<"fabs", 1>>},
              !.colls = {<<"A", "bk1">>, <<"A", "bk2">>}, !.selectmany = TRUE, !.range = TRUE,
              !.rows = {"bool", "seq", "seqseq", "tuple", "dict"}, !.topmid = {S(O("A")), N}, !.topwhere = TRUE, !.evwhere = TRUE,
              !.letcall = {N, O("A")}, !.letseq = {N}, !.userfns = {"vp_inc_res", "vp_lin_a_b"}, !.mindone = 12]

\* C04: partial operations (First, index, link dereference) under guards
ProfFault == [Base EXCEPT !.methods = {"pt", "vals", "link"}, !.consts = {<<"int", 0, 1>>},
                !.iconsts = {0, 1, 2}, !.cmpops = {">"}, !.boolops = {"And", "Or"}, !.ifexp = TRUE,
                !.aggs = {"Count"}, !.first = TRUE, !.index = TRUE, !.rows = {"bool", "seq"},
                !.evwhere = TRUE]

\* C04, second profile: guards (and/or, conditional) around First() with the guarded value used inside something
\* larger (a function call: its value is placed at the scope current when it is translated), over a minimal alphabet so that the bound reaches 13 tokens exhaustively
ProfGuard == [Base EXCEPT !.methods = {"pt"}, !.consts = {<<"int", 0, 1>>}, !.cmpops = {">", "=="}, !.boolops = {"And", "Or"},
                !.ifexp = TRUE, !.aggs = {"Count"}, !.first = TRUE, !.math = {<<"fabs", 1>>}, !.rows = {"bool"},
                !.select = FALSE, !.where = FALSE]

\* C04 / C01: conditionals with First() in the test, the taken or the untaken arm, with DISTINCT constants in the
\* arms so that running the wrong arm shows in the value
ProfIfFirst == [Base EXCEPT !.methods = {"pt"}, !.consts = {<<"int", 0, 1>>, <<"int", 1, 1>>}, !.cmpops = {">"}, !.ifexp = TRUE,
                  !.aggs = {"Count"}, !.first = TRUE, !.rows = {"bool"}, !.select = FALSE, !.where = FALSE, !.must = {"If", "First"}]

\* C04, third profile (CMS only): the documented guard isNonnull(ref) and ref.f(), ref.f() if isNonnull(ref) else ..
\* over smart references that may be null
ProfNonNull == [Base EXCEPT !.classes = {"A", "R1"}, !.methods = {"tref", "pt", "q"}, !.consts = {<<"int", 0, 1>>},
                  !.cmpops = {">"}, !.boolops = {"And", "Or"}, !.ifexp = TRUE, !.not = TRUE, !.rows = {"bool"}, !.select = FALSE, !.where = FALSE,
                  !.colls = {}, !.start = "perobj", !.nonnull = TRUE, !.must = {"NonNull"}]

=============================================================================
