CONSTANTS
  MaxSize = 9
  Prof <- ProfCollZ
  MathTable <- NoTable
  GenBackend = "cms_aod"
INIT GInit
NEXT GNext
INVARIANT Export
