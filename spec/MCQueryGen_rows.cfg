CONSTANTS
  MaxSize = 16
  Prof <- ProfRows
  MathTable <- NoTable
  GenBackend = "any"
INIT GInit
NEXT GNext
INVARIANT Export
