CONSTANT MathTable <- NoTable
INIT TInit
NEXT TNext
