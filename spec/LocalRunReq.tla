------------------------------ MODULE LocalRunReq ---------------------------
(* Machine M5: executing a query on a local dataset through docker (property C17).

   Steps, shaped like common/local_dataset.py:
     Construct   (files, image:tag, output directory)      may raise: no files / missing file
     Generate    the package in a fresh temporary directory  may raise: translation failure
     WriteFilelist   /data/<name> per file, in order           may raise: files from two directories
     DockerRun   image, /scripts/<entry script>, volumes     may raise: the container fails
     Extract     copy the result file to the output directory may raise: no result file
     Cleanup     the temporary directory is removed, in every case
   A scenario fixes every choice; Expected(sc) is what the caller and the docker stand-in must
   observe.  TLC enumerates all scenarios (the machine below walks each through its steps and
   checks the design-level ordering facts); LocalRunTrace.tla validates the real code.        *)
EXTENDS Naturals, Sequences, FiniteSets, TLC

Backends == {"atlas", "cms_aod", "cms_miniaod"}
\* two_dirs: sibling directories; nested_dir: the second file lies in a sub-directory of the first
\* file's directory; nested_rev: the other way round - none of these share one directory
\* repeat_aba / repeat_aa: the caller names a file more than once (f1, f2, f1 / f1, f1): every mention is an input, in order
FilesCfg == {"one", "two_same_dir", "three_same_dir", "two_dirs", "nested_dir", "nested_rev", "one_missing", "none",
             "repeat_aba", "repeat_aa"}
NotOneDir == {"two_dirs", "nested_dir", "nested_rev"}
\* real_runner: the container is the namespace sandbox of the C16 check - the package's own runner.sh runs, unmodified, on
\* the volumes and with the command docker.run was given (machines M4 and M5 composed end to end)
Containers == {"ok_result", "ok_noresult", "fail_at_0", "fail_at_2", "real_runner"}

\* prior: what the SAME dataset object executed before this query - nothing, a query carrying docker metadata
\* (another image) that ran, or one whose translation failed.  Expected() does not mention it: that is the property.
\* same_query: this very query object was executed once already (with a container that succeeded)
Priors == {"none", "md_ok", "md_fail", "same_query"}
\* md: docker metadata absent / alone / followed or preceded in the chain by metadata that yields no value of its
\* own (a method type declaration) / together with a job-script block
MdCfg == {"absent", "present", "present_decl", "decl_present", "present_script"}
Scenario == [backend : Backends, files : FilesCfg, md : MdCfg, outdir : {"given", "default"},
             translation : {"ok", "fails"}, container : Containers, prior : Priors]

\* the harness constructs every dataset with docker_image = "vp/dataset-image", docker_tag = "tag1"
DefaultImage(b) == "vp/dataset-image:tag1"
MdImage == "vp/from-metadata:1"
CacheMounts(b) == IF b = "atlas" THEN {"/xaod_calibration_cache"} ELSE {}

\* which of the three files the caller names, in the order given
FileIdx(f) == CASE f = "one" -> <<1>> [] f = "two_same_dir" -> <<1, 2>> [] f = "three_same_dir" -> <<1, 2, 3>>
                [] f \in NotOneDir -> <<1, 2>> [] f = "one_missing" -> <<1, 2>> [] f = "none" -> <<>>
                [] f = "repeat_aba" -> <<1, 2, 1>> [] f = "repeat_aa" -> <<1, 1>>
NFiles(f) == Len(FileIdx(f))
FileNames == <<"f1.root", "f2.root", "f3.root">>

\* where the scenario ends: which step raises (or "done")
Ends(sc) ==
  IF sc.files \in {"none", "one_missing"} THEN "construct"
  ELSE IF sc.translation = "fails" THEN "generate"
  ELSE IF sc.files \in NotOneDir THEN "filelist"
  ELSE IF sc.container \in {"fail_at_0", "fail_at_2"} THEN "docker"
  ELSE IF sc.container = "ok_noresult" THEN "extract"
  ELSE "done"

Expected(sc) ==
  [raises |-> Ends(sc) # "done",
   exc |-> CASE Ends(sc) = "construct" -> IF sc.files = "none" THEN "RuntimeError" ELSE "FileNotFoundError"
             [] Ends(sc) = "filelist" -> "RuntimeError"
             [] Ends(sc) = "docker" -> "DockerException"
             [] OTHER -> "any",
   started |-> Ends(sc) \in {"docker", "extract", "done"},       \* was a container started at all
   image |-> IF sc.md # "absent" THEN MdImage ELSE DefaultImage(sc.backend),
   filelist |-> [i \in 1..NFiles(sc.files) |-> "/data/" \o FileNames[FileIdx(sc.files)[i]]],
   cache |-> CacheMounts(sc.backend),
   returns |-> Ends(sc) = "done"]
=============================================================================
