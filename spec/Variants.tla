------------------------------ MODULE Variants ------------------------------
(* Equivalent variants of a query (property C08): bound names changed (including
   hostile names and shadowing), chained Where/Select steps fused.  Wire format
   (Python AST vs qastle text) and the position of the MetaData calls are rendering
   choices listed in SurfaceVariants; they do not change the term at all.

   Soundness of the variant steps (J3):
     - a renaming is only emitted when the de Bruijn form of the result equals the
       de Bruijn form of the original (alpha-equivalence, decided structurally here);
     - fusions are checked semantically in the validation run (VariantTrace.tla):
       same rows on every event of the pool, same schema.                            *)
EXTENDS QueryGen, SequencesExt

----------------------------------------------------------------------------
(* de Bruijn form: binder names erased, variables replaced by the distance to their binder *)
RECURSIVE IndexOf(_, _, _)
IndexOf(env, x, i) == IF i = 0 THEN 0 ELSE IF env[i] = x THEN Len(env) - i + 1 ELSE IndexOf(env, x, i - 1)

Binder1(k) == k \in {"Select", "SelectMany", "Where"}

RECURSIVE DB(_, _)
DB(q, env) ==
  IF q.k = "Var"
  THEN LET i == IndexOf(env, q.a, Len(env)) IN
       IF i = 0 THEN q ELSE [q EXCEPT !.a = "", !.n = i]
  ELSE IF Binder1(q.k)
  THEN [q EXCEPT !.a = "", !.ch = <<DB(q.ch[1], env), DB(q.ch[2], Append(env, q.a))>>]
  ELSE IF q.k = "Aggregate"
  THEN [q EXCEPT !.a = "", !.b = "",
                 !.ch = <<DB(q.ch[1], env), DB(q.ch[2], env), DB(q.ch[3], Append(Append(env, q.a), q.b))>>]
  ELSE [q EXCEPT !.ch = [i \in DOMAIN q.ch |-> DB(q.ch[i], env)]]

AlphaEq(q1, q2) == DB(q1, <<>>) = DB(q2, <<>>)

----------------------------------------------------------------------------
(* renaming by lambda depth: the binder at depth d is called pool[d] *)
RECURSIVE RenLookup(_, _, _)
RenLookup(ren, x, i) == IF i = 0 THEN x ELSE IF ren[i][1] = x THEN ren[i][2] ELSE RenLookup(ren, x, i - 1)

RECURSIVE RenameDepth(_, _, _)
\* ren: stack of <<old, new>>
RenameDepth(q, pool, ren) ==
  LET d == Len(ren) + 1
      nm(i) == pool[((i - 1) % Len(pool)) + 1] IN
  IF q.k = "Var" THEN [q EXCEPT !.a = RenLookup(ren, q.a, Len(ren))]
  ELSE IF Binder1(q.k)
  THEN [q EXCEPT !.a = nm(d),
                 !.ch = <<RenameDepth(q.ch[1], pool, ren), RenameDepth(q.ch[2], pool, Append(ren, <<q.a, nm(d)>>))>>]
  ELSE IF q.k = "Aggregate"
  THEN [q EXCEPT !.a = nm(d), !.b = nm(d + 1),
                 !.ch = <<RenameDepth(q.ch[1], pool, ren), RenameDepth(q.ch[2], pool, ren),
                          RenameDepth(q.ch[3], pool, Append(Append(ren, <<q.a, nm(d)>>), <<q.b, nm(d + 1)>>))>>]
  ELSE [q EXCEPT !.ch = [i \in DOMAIN q.ch |-> RenameDepth(q.ch[i], pool, ren)]]

\* names the translator itself uses in its code templates, func_adl's own argument names, ...
HostilePools == <<
  <<"result", "collection_name", "obj_j", "cms_object", "moment_name", "arg_0", "arg_1", "x">>,
  <<"x">>,                                   \* every binder called x (legal where nothing outer is used)
  <<"a", "b">>,                              \* two names alternating with depth
  <<"r", "q", "p", "m", "l", "k", "j", "e">>, \* the base names, reversed
  <<"j", "e", "j", "e", "k", "e", "l", "e">>  \* the event's name re-used deeper down
>>

Renamings(q) == {r \in {RenameDepth(q, HostilePools[i], <<>>) : i \in DOMAIN HostilePools} :
                   r # q /\ AlphaEq(q, r)}

----------------------------------------------------------------------------
(* fusing chained steps, at the outermost place where the pattern occurs *)
RECURSIVE SubstVar(_, _, _)
\* replace free occurrences of variable x in q by term t (binders in q never rebind a free name of t
\* in the terms this is applied to; VariantTrace re-checks the result semantically)
SubstVar(q, x, t) ==
  IF q.k = "Var" THEN (IF q.a = x THEN t ELSE q)
  ELSE IF Binder1(q.k)
  THEN [q EXCEPT !.ch = <<SubstVar(q.ch[1], x, t), IF q.a = x THEN q.ch[2] ELSE SubstVar(q.ch[2], x, t)>>]
  ELSE IF q.k = "Aggregate"
  THEN [q EXCEPT !.ch = <<SubstVar(q.ch[1], x, t), SubstVar(q.ch[2], x, t),
                          IF x \in {q.a, q.b} THEN q.ch[3] ELSE SubstVar(q.ch[3], x, t)>>]
  ELSE [q EXCEPT !.ch = [i \in DOMAIN q.ch |-> SubstVar(q.ch[i], x, t)]]

VarT(x) == [k |-> "Var", a |-> x, b |-> "", n |-> 0, d |-> 1, ch |-> <<>>]

\* only the innermost pair of a longer chain: fusing elsewhere merely re-associates the
\* conjunction ((p and q) and r  vs  p and (q and r)), which is an equivalent but different program
\* and only chains sitting directly on a plain source: func_adl moves Where steps through
\* Select steps while normalising, so in longer mixed chains a hand fusion meets a differently
\* associated (equivalent) conjunction
PlainSource(s) == s.k \in {"Coll", "Meth", "Var", "DS", "Range"}
FusableWhere(q) == q.k = "Where" /\ q.ch[1].k = "Where" /\ PlainSource(q.ch[1].ch[1])
FuseWhere(q) == LET inner == q.ch[1] IN
  [k |-> "Where", a |-> inner.a, b |-> "", n |-> 0, d |-> 1,
   ch |-> <<inner.ch[1],
            [k |-> "And", a |-> "", b |-> "", n |-> 2, d |-> 1,
             ch |-> <<inner.ch[2], SubstVar(q.ch[2], q.a, VarT(inner.a))>>]>>]

RECURSIVE Occurs(_, _)
\* number of free occurrences of variable x
Occurs(q, x) ==
  IF q.k = "Var" THEN (IF q.a = x THEN 1 ELSE 0)
  ELSE LET RECURSIVE Sum(_)
           Sum(i) == IF i > Len(q.ch) THEN 0
                     ELSE (IF (Binder1(q.k) /\ i = 2 /\ q.a = x) \/ (q.k = "Aggregate" /\ i = 3 /\ x \in {q.a, q.b})
                           THEN 0 ELSE Occurs(q.ch[i], x)) + Sum(i + 1)
       IN Sum(1)

\* Select(Select(s, f), g) is the same *text* as Select(s, g o f) only when g uses its argument
\* once: otherwise the fused query repeats f (e.g. fetches a collection twice), which is an
\* equivalent but legitimately different program
FusableSelect(q) == q.k = "Select" /\ q.ch[1].k = "Select" /\ Occurs(q.ch[2], q.a) <= 1 /\ PlainSource(q.ch[1].ch[1])
FuseSelect(q) == LET inner == q.ch[1] IN
  [k |-> "Select", a |-> inner.a, b |-> "", n |-> 0, d |-> 1,
   ch |-> <<inner.ch[1], SubstVar(q.ch[2], q.a, inner.ch[2])>>]

RECURSIVE FuseFirst(_)
\* <<changed?, term>>
FuseFirst(q) ==
  IF FusableWhere(q) THEN <<TRUE, FuseWhere(q)>>
  ELSE IF FusableSelect(q) THEN <<TRUE, FuseSelect(q)>>
  ELSE LET RECURSIVE Kids(_)
           Kids(i) == IF i > Len(q.ch) THEN <<FALSE, <<>>>>
                      ELSE LET f == FuseFirst(q.ch[i]) IN
                           IF f[1] THEN <<TRUE, <<f[2]>> \o [j \in 1..(Len(q.ch) - i) |-> q.ch[i + j]]>>
                           ELSE LET rest == Kids(i + 1) IN <<rest[1], <<q.ch[i]>> \o rest[2]>>
           ks == Kids(1)
       IN IF ks[1] THEN <<TRUE, [q EXCEPT !.ch = ks[2]]>> ELSE <<FALSE, q>>

Fusions(q) == LET f == FuseFirst(q) IN IF f[1] THEN {f[2]} ELSE {}

----------------------------------------------------------------------------
(* MetaData attached part-way along the top-level chain: ds.Where(f).MetaData(md).Where(g).
   Meta is transparent for Denote/TypeOf; the spine is the chain of first arguments from the
   root down to the dataset.                                                                 *)
OnSpine(q) == q.k \in {"Select", "SelectMany", "Where", "Root"}
RECURSIVE SpineLen(_)
SpineLen(q) == IF OnSpine(q) THEN 1 + SpineLen(q.ch[1]) ELSE 0
RECURSIVE MetaAt(_, _)
MetaAt(q, depth) ==
  IF depth = 0 THEN [k |-> "Meta", a |-> "", b |-> "", n |-> 0, d |-> 1, ch |-> <<q>>]
  ELSE [q EXCEPT !.ch = <<MetaAt(q.ch[1], depth - 1)>> \o [i \in 1..(Len(q.ch) - 1) |-> q.ch[i + 1]]]
MidMeta(q) == {MetaAt(q, dd) : dd \in 1..(SpineLen(q) - 1)}

SurfaceVariants == {"qastle", "md_outer", "call_style"}

VariantRecs(q) == {[how |-> "rename", q |-> r] : r \in Renamings(q)}
                  \cup {[how |-> "fuse", q |-> r] : r \in Fusions(q)}
                  \cup {[how |-> "md_mid", q |-> r] : r \in MidMeta(q)}
                  \cup {[how |-> s, q |-> q] : s \in SurfaceVariants}

ExportVariants == Complete =>
   LET q == Parse(toks) IN
   PrintT(<<"CASE", ToJson([q |-> q, support |-> Support(q), variants |-> SetToSeq(VariantRecs(q))])>>)
=============================================================================
