CONSTANTS
  Names <- NamesT
  Unsent = "z"
  Scripts <- ScriptsT
  MaxLen = 3
  MaxDeps = 2
INIT Init
NEXT Next
INVARIANT LoopMeetsSpecOutcome
INVARIANT LoopMeetsSpecScript
INVARIANT LoopNeverDrops
