CONSTANT MathTable <- MathFile
INIT TInit
NEXT TNext
