CONSTANTS
  MaxSize = 12
  Prof <- ProfGuard
  MathTable <- NoTable
  GenBackend = "any"
INIT GInit
NEXT GNext
INVARIANT Export
