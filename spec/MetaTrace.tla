----------------------------- MODULE MetaTrace -----------------------------
(* Trace validation for C15: every record of TRACE_FILE is one observed call of
   the real generate_script_block (or of the rendered job-options file):
     [blocks |-> <<[name, script, deps]>>, outcome |-> "ok" | <exception class>,
      script |-> <<lines>>]
   Each record is a two-state behaviour  Sent(blocks) -> Replied(outcome, script)
   that must be allowed by the required behaviour of MetaBlocks:
     ScriptOutcome: ValueError exactly when Outcome = "error", success otherwise;
     ValidScript:   the returned lines are a valid emission.
   Verdicts are total: a failing record is reported with PrintT and the run
   goes on; the harness reads the VERDICT lines.                             *)
EXTENDS MetaBlocksReq, Json, IOUtils

Obs == JsonDeserialize(IOEnv.TRACE_FILE)
N == Len(Obs)

VARIABLES i, st
tvars == <<i, st>>

Verdict(r) ==
  LET want == Outcome(r.blocks) IN
  IF want = "error"
  THEN IF r.outcome = "ValueError" THEN "ok" ELSE "ScriptOutcome"
  ELSE IF r.outcome # "ok" THEN "ScriptOutcome"
       ELSE IF ValidScript(r.script, r.blocks) THEN "ok" ELSE "ValidScript"

TInit == i \in 1..N /\ st = "sent"
TReply == /\ st = "sent"
          /\ LET v == Verdict(Obs[i]) IN
             /\ st' = v
             /\ IF v = "ok" THEN TRUE ELSE PrintT(<<"VERDICT", i, v>>)
          /\ UNCHANGED i
TNext == TReply
Done == TRUE
=============================================================================
