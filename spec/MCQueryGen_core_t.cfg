CONSTANTS
  MaxSize = 10
  Prof <- ProfCore
  MathTable <- NoTable
INIT GInit
NEXT GNext
INVARIANT Export
