CONSTANTS
  MaxSize = 10
  Prof <- ProfCore
  MathTable <- NoTable
  GenBackend = "any"
INIT GInit
NEXT GNext
INVARIANT Export
