CONSTANTS
  MaxSize = 8
  Prof <- ProfTiny
  MathTable <- NoTable
  GenBackend = "any"
INIT GInit
NEXT GNext
INVARIANT Export
