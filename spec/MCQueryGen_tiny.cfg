CONSTANTS
  MaxSize = 8
  Prof <- ProfTiny
  MathTable <- NoTable
INIT GInit
NEXT GNext
INVARIANT Export
