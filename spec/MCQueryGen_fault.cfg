CONSTANTS
  MaxSize = 12
  Prof <- ProfFault
  MathTable <- NoTable
  GenBackend = "any"
INIT GInit
NEXT GNext
INVARIANT Export
