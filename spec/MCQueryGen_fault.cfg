CONSTANTS
  MaxSize = 12
  Prof <- ProfFault
  MathTable <- NoTable
INIT GInit
NEXT GNext
INVARIANT Export
