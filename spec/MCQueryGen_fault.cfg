CONSTANTS
  MaxSize = 10
  Prof <- ProfFault
  MathTable <- NoTable
INIT GInit
NEXT GNext
INVARIANT Export
