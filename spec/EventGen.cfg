CONSTANTS
  MaxObj = 2
  MathTable <- NoTable
INIT EInit
NEXT ENext
INVARIANT Export
