CONSTANTS
  MaxSize = 9
  Prof <- ProfCollZ
  MathTable <- NoTable
  GenBackend = "atlas"
INIT GInit
NEXT GNext
INVARIANT Export
