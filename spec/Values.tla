------------------------------- MODULE Values -------------------------------
(* Tagged values of the query language and Python numerics on them.

   num   [t |-> "num", k |-> "int"|"float"|"double"|"bool", n |-> Int, d |-> Nat \ {0}]
         exact rational n/d, gcd-normal.  "float"/"double" are the C++ kinds a
         declared method may have; Python itself only knows int / float / bool.
   obj   [t |-> "obj", id |-> Nat]          id = 0 is the null link
   seq   [t |-> "seq", v |-> <<values>>]    elements may individually be bad (lazy sequences)
   tup   [t |-> "tup", v |-> <<values>>]
   dict  [t |-> "dict", keys |-> <<strings>>, v |-> <<values>>]
   str   [t |-> "str", s |-> STRING]
   ev    [t |-> "ev"]                       the event itself
   fault [t |-> "fault", kind |-> STRING]   the query is undefined here: the job must fail loudly
   undef [t |-> "undef", why |-> STRING]    outside the quantified domain of the properties
                                            (division by zero, % with a negative operand, ...):
                                            the event is skipped and counted, never judged        *)
EXTENDS Integers, Sequences, TLC

Num(k, n, d) == [t |-> "num", k |-> k, n |-> n, d |-> d]
Fault(kind)  == [t |-> "fault", kind |-> kind]
Undef(why)   == [t |-> "undef", why |-> why]
Obj(id)      == [t |-> "obj", id |-> id]
SeqV(s)      == [t |-> "seq", v |-> s]
TupV(s)      == [t |-> "tup", v |-> s]
StrV(s)      == [t |-> "str", s |-> s]
EvV          == [t |-> "ev"]

\* "sfault" / "sundef": a bad value that decides whether a sequence element EXISTS (the predicate
\* of a Where could not be evaluated).  Unlike a bad element value, which only matters if some
\* consumer looks at it, it cannot be ignored by a later Select that drops its parameter.
IsFault(v) == v.t \in {"fault", "sfault"}
IsUndef(v) == v.t \in {"undef", "sundef"}
Bad(v)     == v.t \in {"fault", "undef", "sfault", "sundef"}
StrictBad(v) == v.t \in {"sfault", "sundef"}
Strict(v)  == IF v.t = "fault" THEN [v EXCEPT !.t = "sfault"] ELSE IF v.t = "undef" THEN [v EXCEPT !.t = "sundef"] ELSE v

\* of two operands, both evaluated, at least one bad: an undef wins (the event is out of
\* scope), otherwise the leftmost fault
Worse(x, y) == IF IsUndef(x) THEN x ELSE IF IsUndef(y) THEN y ELSE IF IsFault(x) THEN x ELSE y

RECURSIVE FirstBadFrom(_, _, _)
\* first undef if any, else first fault, else <<>>-marker; `pick` is "undef" or "fault"
FirstBadFrom(s, i, pick) ==
  IF i > Len(s) THEN [t |-> "none"]
  ELSE IF (pick = "undef" /\ IsUndef(s[i])) \/ (pick = "fault" /\ IsFault(s[i])) THEN s[i]
  ELSE FirstBadFrom(s, i + 1, pick)
FirstBad(s) == LET u == FirstBadFrom(s, 1, "undef") IN
               IF u.t # "none" THEN u ELSE FirstBadFrom(s, 1, "fault")
AnyBad(s) == \E i \in DOMAIN s : Bad(s[i])

----------------------------------------------------------------------------
(* exact rationals *)
Abs(x) == IF x < 0 THEN -x ELSE x
RECURSIVE Gcd(_, _)
Gcd(a, b) == IF b = 0 THEN a ELSE Gcd(b, a % b)
Norm(k, n, d) == LET s == IF d < 0 THEN -1 ELSE 1
                     g == Gcd(Abs(n), Abs(d))
                 IN  Num(k, (s * n) \div g, (s * d) \div g)

Rank(k) == CASE k = "bool" -> 0 [] k = "int" -> 0 [] k = "float" -> 1 [] k = "double" -> 2
ArithKind(k) == IF k = "bool" THEN "int" ELSE k
Wider(k1, k2) == IF Rank(k1) >= Rank(k2) THEN ArithKind(k1) ELSE ArithKind(k2)

Lt(x, y) == x.n * y.d < y.n * x.d
Eq(x, y) == x.n * y.d = y.n * x.d
IsIntVal(x) == x.d = 1
Truth(x) == x.n # 0
BoolV(b) == Num("bool", IF b THEN 1 ELSE 0, 1)

\* floor of a rational
Floor(x) == x.n \div x.d     \* TLC's \div floors toward minus infinity for positive divisors

RECURSIVE IPow(_, _)
IPow(b, e) == IF e = 0 THEN 1 ELSE b * IPow(b, e - 1)

----------------------------------------------------------------------------
(* Python numerics (operands already known to be good nums) *)
PyAdd(x, y) == Norm(Wider(x.k, y.k), x.n * y.d + y.n * x.d, x.d * y.d)
PySub(x, y) == Norm(Wider(x.k, y.k), x.n * y.d - y.n * x.d, x.d * y.d)
PyMul(x, y) == Norm(Wider(x.k, y.k), x.n * y.n, x.d * y.d)
\* '/' is real division, whatever the operand kinds
PyDiv(x, y) == IF y.n = 0 THEN Undef("div_zero") ELSE Norm("double", x.n * y.d, x.d * y.n)
\* '%' is only specified for non-negative left and positive right operands
PyMod(x, y) == IF x.n < 0 \/ y.n <= 0 THEN Undef("mod_domain")
               ELSE LET q == (x.n * y.d) \div (x.d * y.n)      \* floor(x / y)
                    IN  Norm(Wider(x.k, y.k), x.n * y.d - q * y.n * x.d, x.d * y.d)
\* '**' is a real power; exact here for small integer-valued exponents only
PyPow(x, y) == IF ~IsIntVal(y) \/ Abs(y.n) > 4 \/ Abs(x.n) > 40 \/ x.d > 40 THEN Undef("pow_domain")
               ELSE IF y.n >= 0 THEN Norm("double", IPow(x.n, y.n), IPow(x.d, y.n))
               ELSE IF x.n = 0 THEN Undef("div_zero")
               ELSE Norm("double", IPow(x.d, -y.n), IPow(x.n, -y.n))
PyNeg(x) == Num(ArithKind(x.k), -x.n, x.d)
PyPos(x) == Num(ArithKind(x.k), x.n, x.d)
PyNot(x) == BoolV(~Truth(x))
PyCmp(op, x, y) ==
  BoolV(CASE op = "<"  -> Lt(x, y)
          [] op = "<=" -> Lt(x, y) \/ Eq(x, y)
          [] op = ">"  -> Lt(y, x)
          [] op = ">=" -> Lt(y, x) \/ Eq(x, y)
          [] op = "==" -> Eq(x, y)
          [] op = "!=" -> ~Eq(x, y))

Arith(op, x, y) ==
  IF Bad(x) \/ Bad(y) THEN Worse(x, y)
  ELSE CASE op = "+"  -> PyAdd(x, y)
         [] op = "-"  -> PySub(x, y)
         [] op = "*"  -> PyMul(x, y)
         [] op = "/"  -> PyDiv(x, y)
         [] op = "%"  -> PyMod(x, y)
         [] op = "**" -> PyPow(x, y)

----------------------------------------------------------------------------
(* Comparison of an observed cell with an expected value.
   Observed scalars are logged by the model job as [s |-> round(x * Scale), f |-> "ok"|"nan"|"inf"|"big"].
   Tolerance: |obs - exp| <= Tol / Scale absolute, which separates "right operation"
   from "wrong operation" on the small dyadic value pools used; it is not an accuracy claim. *)
Scale == 1000
Tol   == 2
\* expected value on the observation grid; every product stays inside TLC's 32-bit integers
\* whatever the job logged (an observed value may be garbage of any magnitude)
Huge == 2000000
ExpScaled(x) == IF Abs(x.n) <= Huge THEN (x.n * Scale) \div x.d
                ELSE IF Abs(x.n \div x.d) <= Huge THEN (x.n \div x.d) * Scale
                ELSE IF x.n > 0 THEN Huge * Scale ELSE -(Huge * Scale)
CloseNum(o, x) ==
  IF o.f = "big" THEN Abs(x.n \div x.d) >= Huge          \* logged as beyond +-2*10^6: only right if expected so
  ELSE /\ o.f = "ok"
       /\ Abs(o.s - ExpScaled(x)) <= Tol + 1
=============================================================================
