------------------------------ MODULE QueryGen ------------------------------
(* Layer G: a leftmost-derivation machine whose complete behaviours are exactly
   the well-typed queries of the profile in scope.

   State: toks   - the term so far, in prefix notation
          agenda - stack of open holes, leftmost first; a hole is [ty, env]:
                   the type the sub-term must have and the lambda parameters in scope.
   One step fills the leftmost hole with one production.  A state with an empty
   agenda is a complete query; the invariant Export prints it (as a parsed tree)
   for the harness.  Exhaustive TLC runs enumerate every query with
   Len(toks) + (minimum size of the open holes) <= MaxSize; -simulate samples deeper ones. *)
EXTENDS Universe, Json

CONSTANTS MaxSize,   \* bound on tokens + minimal completion of open holes
          Prof,      \* profile record, see MCQueryGen.tla
          GenBackend \* "any", or the backend whose collection table restricts the Coll productions

VARIABLES toks, agenda
gvars == <<toks, agenda>>

----------------------------------------------------------------------------
(* hole types *)
N      == [h |-> "num"]
B      == [h |-> "bool"]
EV     == [h |-> "ev"]
O(c)   == [h |-> "obj", c |-> c]
S(t)   == [h |-> "seq", e |-> t]
V(t)   == [h |-> "vec", e |-> t]          \* a C++ collection value (method result): indexable
ROW    == [h |-> "row"]
ITEM   == [h |-> "item"]
TOP(t) == [h |-> "top", e |-> t]          \* a sequence rooted at the dataset
EVSEQ  == [h |-> "evseq"]
KEY(s) == [h |-> "key", c |-> s]
ICONST == [h |-> "iconst"]
FNCALL == [h |-> "fncall"]                \* a call of one of the supplied C++ functions named in Prof.letfn

\* intermediate results that a later top-level step takes apart: (seq, seq) tuples and {"ca": .., "cb": ..} dicts
TUP(t1, t2) == [h |-> "tup", v |-> <<t1, t2>>]
DCT(t1, t2) == [h |-> "dict", v |-> <<t1, t2>>]

Tok(k, a, b, n, d) == [k |-> k, a |-> a, b |-> b, n |-> n, d |-> d]
Hole(ty, env) == [ty |-> ty, env |-> env]
P(tok, holes) == [tok |-> tok, holes |-> holes]

ParamNames == <<"e", "j", "k", "l", "m", "p", "q", "r">>
Fresh(env) == ParamNames[Len(env) + 1]
Ext(env, x, ty) == Append(env, [x |-> x, ty |-> ty])
VarsOf(env, ty) == {env[i].x : i \in {i \in DOMAIN env : env[i].ty = ty /\
                                       \A j \in DOMAIN env : j > i => env[j].x # env[i].x}}

Classes == {"A", "B", "T"}
ElemTypes == {N} \cup {O(c) : c \in Prof.classes}

\* fewest tokens that can complete a hole (used only to prune hopeless derivations)
MinTok(h) ==
  CASE h.ty.h \in {"num", "row", "item", "iconst", "key", "ev"} -> 1
    [] h.ty.h \in {"tup", "dict"} -> IF VarsOf(h.env, h.ty) # {} THEN 1 ELSE 5
    [] h.ty.h = "root" -> 3
    [] h.ty.h = "bool" -> IF Prof.boolConst THEN 1 ELSE 3
    [] h.ty.h = "obj" -> IF VarsOf(h.env, h.ty) # {} THEN 1 ELSE 3
    [] h.ty.h \in {"seq", "vec"} -> IF VarsOf(h.env, S(h.ty.e)) # {} THEN 1 ELSE 2
    [] h.ty.h = "evseq" -> 1
    [] h.ty.h = "fncall" -> 2
    [] h.ty.h = "top" -> 3
RECURSIVE MinToks(_, _)
MinToks(hs, i) == IF i > Len(hs) THEN 0 ELSE MinTok(hs[i]) + MinToks(hs, i + 1)

----------------------------------------------------------------------------
(* productions *)
NumMeth(env) == {P(Tok("Meth", Methods[i].name, "", 0, 1), <<Hole(O(Methods[i].cls), env)>>) :
                   i \in {i \in DOMAIN Methods : Methods[i].ret = "num" /\ Methods[i].kind # "bool"
                                                  /\ Methods[i].cls \in Prof.classes
                                                  /\ Methods[i].name \in Prof.methods}}
BoolMeth(env) == {P(Tok("Meth", Methods[i].name, "", 0, 1), <<Hole(O(Methods[i].cls), env)>>) :
                   i \in {i \in DOMAIN Methods : Methods[i].ret = "num" /\ Methods[i].kind = "bool"
                                                  /\ Methods[i].cls \in Prof.classes
                                                  /\ Methods[i].name \in Prof.methods}}
ObjMeth(c, env) == {P(Tok("Meth", Methods[i].name, "", 0, 1), <<Hole(O(Methods[i].cls), env)>>) :
                   i \in {i \in DOMAIN Methods : Methods[i].ret = "obj" /\ Methods[i].kind = c
                                                  /\ Methods[i].cls \in Prof.classes
                                                  /\ Methods[i].name \in Prof.methods}}
VecMeth(e, env) == {P(Tok("Meth", Methods[i].name, "", 0, 1), <<Hole(O(Methods[i].cls), env)>>) :
                   i \in {i \in DOMAIN Methods :
                            /\ \/ (e = N /\ Methods[i].ret = "vecnum")
                               \/ (e.h = "obj" /\ Methods[i].ret = "vecobj" /\ Methods[i].kind = e.c)
                            /\ Methods[i].cls \in Prof.classes
                            /\ Methods[i].name \in Prof.methods}}

TupleVars(env) == {i \in DOMAIN env : env[i].ty.h \in {"tup", "dict"} /\ \A j \in DOMAIN env : j > i => env[j].x # env[i].x}
\* a variable of the type itself, or a component of a tuple / dict variable
VarProds(ty, env) ==
     {P(Tok("Var", x, "", 0, 1), <<>>) : x \in VarsOf(env, ty)}
  \cup {P(Tok("TupIdx", "", "", c - 1, 1), <<Hole(env[i].ty, env)>>) :
          i \in {i \in TupleVars(env) : env[i].ty.h = "tup"}, c \in {c \in 1..2 : \E i \in TupleVars(env) : env[i].ty.h = "tup" /\ env[i].ty.v[c] = ty}}
  \cup {P(Tok("DictGet", <<"ca", "cb">>[c], "", 0, 1), <<Hole(env[i].ty, env)>>) :
          i \in {i \in TupleVars(env) : env[i].ty.h = "dict"}, c \in {c \in 1..2 : \E i \in TupleVars(env) : env[i].ty.h = "dict" /\ env[i].ty.v[c] = ty}}

NumProds(env) ==
     {P(Tok("Const", c[1], "", c[2], c[3]), <<>>) : c \in Prof.consts}
  \cup VarProds(N, env)
  \cup NumMeth(env)
  \cup (IF Prof.boolAsNum THEN BoolMeth(env) ELSE {})
  \cup {P(Tok("Bin", op, "", 0, 1), <<Hole(N, env), Hole(N, env)>>) : op \in Prof.binops}
  \cup {P(Tok("Un", op, "", 0, 1), <<Hole(N, env)>>) : op \in Prof.unops}
  \cup (IF Prof.ifexp THEN {P(Tok("If", "", "", 0, 1), <<Hole(B, env), Hole(N, env), Hole(N, env)>>)} ELSE {})
  \cup {P(Tok("Count", "", "", 0, 1), <<Hole(S(e), env)>>) : e \in IF "Count" \in Prof.aggs THEN ElemTypes ELSE {}}
  \cup {P(Tok(f, "", "", 0, 1), <<Hole(S(N), env)>>) : f \in Prof.aggs \cap {"Sum", "Min", "Max"}}
  \cup {P(Tok("Aggregate", "acc", Fresh(env), 0, 1),
          <<Hole(S(e), env), Hole(ICONST, env), Hole(N, Ext(Ext(env, "acc", N), Fresh(env), e))>>) :
          e \in IF "Aggregate" \in Prof.aggs THEN ElemTypes ELSE {}}
  \cup (IF Prof.first THEN {P(Tok("First", "", "", 0, 1), <<Hole(S(N), env)>>)} ELSE {})
  \cup (IF Prof.index THEN {P(Tok("Idx", "", "", 0, 1), <<Hole(V(N), env), Hole(ICONST, env)>>)} ELSE {})
  \cup {P(Tok("Math", f[1], "", f[2], 1), [i \in 1..f[2] |-> Hole(N, env)]) : f \in Prof.math}
  \* (lambda x: <num>)(<argument of type t>)
  \cup {P(Tok("Let", Fresh(env), "", 0, 1), <<Hole(t, env), Hole(N, Ext(env, Fresh(env), t))>>) : t \in Prof.letcall}
  \* (lambda x: <num>)(f(..)): the value of a supplied function bound once and used in the body
  \cup (IF Prof.letfn # {} THEN {P(Tok("Let", Fresh(env), "", 0, 1), <<Hole(FNCALL, env), Hole(N, Ext(env, Fresh(env), N))>>)} ELSE {})
  \cup (IF Prof.enums THEN {P(Tok("EnumArg", EnumValues[i], "", i - 1, 1), <<Hole(O("A"), env)>>) : i \in DOMAIN EnumValues} ELSE {})
  \cup {P(Tok("UserFn", UserFns[i].id, UserFns[i].style, Len(UserFns[i].params) + (IF UserFns[i].style = "method" THEN 1 ELSE 0), 1),
           (IF UserFns[i].style = "method" THEN <<Hole(O("A"), env)>> ELSE <<>>)
           \o [j \in 1..Len(UserFns[i].params) |-> Hole(N, env)]) :
          i \in {i \in DOMAIN UserFns : UserFns[i].id \in Prof.userfns /\ UserFns[i].meaning # "pair"}}

BoolProds(env) ==
     {P(Tok("Cmp", op, "", 0, 1), <<Hole(N, env), Hole(N, env)>>) : op \in Prof.cmpops}
  \cup {P(Tok(op, "", "", 2, 1), <<Hole(B, env), Hole(B, env)>>) : op \in Prof.boolops}
  \cup (IF Prof.not THEN {P(Tok("Un", "not", "", 0, 1), <<Hole(B, env)>>)} ELSE {})
  \cup BoolMeth(env)
  \cup (IF Prof.enums THEN {P(Tok("EnumCmp", EnumValues[i], "", i - 1, 1), <<Hole(O("A"), env)>>) : i \in DOMAIN EnumValues} ELSE {})
  \cup (IF Prof.boolConst THEN {P(Tok("Const", "bool", "", 1, 1), <<>>)} ELSE {})
  \cup (IF Prof.nonnull THEN {P(Tok("NonNull", "", "", 0, 1), <<Hole(O("R1"), env)>>)} ELSE {})

HasEv(env) == VarsOf(env, EV) # {}
Available(coll) == GenBackend = "any" \/ Backends[GenBackend].colls[coll].py # ""

ObjProds(c, env) ==
     VarProds(O(c), env)
  \cup (IF HasEv(env)
        THEN {P(Tok("Single", cb[1], cb[2], 0, 1), <<Hole(EV, env)>>) :
                cb \in {cb \in Prof.singles : CollClass[cb[1]] = c /\ Available(cb[1])}}
        ELSE {})
  \cup (IF Prof.first THEN {P(Tok("First", "", "", 0, 1), <<Hole(S(O(c)), env)>>)} ELSE {})
  \cup ObjMeth(c, env)
  \cup (IF Prof.index THEN {P(Tok("Idx", "", "", 0, 1), <<Hole(V(O(c)), env), Hole(ICONST, env)>>)} ELSE {})

VecProds(e, env) == VecMeth(e, env)

SeqProds(e, env) ==
     VarProds(S(e), env)
  \cup (IF e.h \in {"num", "obj"} THEN VecProds(e, env) ELSE {})
  \cup (IF e.h = "obj" /\ HasEv(env)
        THEN {P(Tok("Coll", cb[1], cb[2], 0, 1), <<Hole(EV, env)>>) :
                cb \in {cb \in Prof.colls : CollClass[cb[1]] = e.c /\ Available(cb[1])}}
        ELSE {})
  \cup {P(Tok("Select", Fresh(env), "", 0, 1), <<Hole(S(s), env), Hole(e, Ext(env, Fresh(env), s))>>) :
          s \in IF Prof.select THEN ElemTypes ELSE {}}
  \cup (IF Prof.where /\ e.h \in {"num", "obj"}
        THEN {P(Tok("Where", Fresh(env), "", 0, 1), <<Hole(S(e), env), Hole(B, Ext(env, Fresh(env), e))>>)}
        ELSE {})
  \cup {P(Tok("SelectMany", Fresh(env), "", 0, 1), <<Hole(S(s), env), Hole(S(e), Ext(env, Fresh(env), s))>>) :
          s \in IF Prof.selectmany THEN ElemTypes ELSE {}}
  \cup (IF e = N
        THEN {P(Tok("UserFn", UserFns[i].id, UserFns[i].style, Len(UserFns[i].params), 1),
                [j \in 1..Len(UserFns[i].params) |-> Hole(N, env)]) :
                i \in {i \in DOMAIN UserFns : UserFns[i].id \in Prof.userfns /\ UserFns[i].meaning = "pair"}}
        ELSE {})
  \cup (IF Prof.range /\ e = N
        THEN {P(Tok("Range", "", "", 0, 1), <<Hole(ICONST, env), Hole(N, env)>>)} ELSE {})
  \* (lambda x: <sequence>)(<argument>): a value computed once, used inside the sequence
  \cup {P(Tok("Let", Fresh(env), "", 0, 1), <<Hole(t, env), Hole(S(e), Ext(env, Fresh(env), t))>>) : t \in Prof.letseq}

ItemProds(env) ==
     NumProds(env)
  \cup (IF "bool" \in Prof.rows THEN BoolProds(env) ELSE {})
  \* a C++ collection value written directly as a column (j.vals() without a Select) is MAY:
  \* the documentation does not say, so it is not generated
  \cup (IF "seq" \in Prof.rows THEN SeqProds(N, env) \ VecProds(N, env) ELSE {})
  \cup (IF "seqseq" \in Prof.rows THEN SeqProds(S(N), env) ELSE {})

RowProds(env) ==
     ItemProds(env)
  \cup (IF "tuple" \in Prof.rows THEN {P(Tok("Tuple", "", "", 2, 1), <<Hole(ITEM, env), Hole(ITEM, env)>>)} ELSE {})
  \cup (IF "list" \in Prof.rows THEN {P(Tok("List", "", "", 2, 1), <<Hole(ITEM, env), Hole(ITEM, env)>>)} ELSE {})
  \cup (IF "dict" \in Prof.rows
        THEN {P(Tok("Dict", "", "", 2, 1), <<Hole(KEY("c1"), env), Hole(ITEM, env), Hole(KEY("c2"), env), Hole(ITEM, env)>>)}
        ELSE {})

\* sources a top-level Select / SelectMany may draw from
TopSrc(s) == IF s = EV THEN Hole(EVSEQ, <<>>) ELSE Hole(TOP(s), <<>>)
TopSrcTypes == {EV} \cup Prof.topmid

TopProds(e) ==
     {P(Tok("Select", "e", "", 0, 1), <<TopSrc(s), Hole(e, <<[x |-> "e", ty |-> s]>>)>>) : s \in TopSrcTypes}
  \cup (IF Prof.selectmany
        THEN {P(Tok("SelectMany", "e", "", 0, 1), <<TopSrc(s), Hole(S(e), <<[x |-> "e", ty |-> s]>>)>>) : s \in TopSrcTypes}
        ELSE {})
  \cup (IF Prof.topwhere
        THEN {P(Tok("Where", "e", "", 0, 1), <<Hole(TOP(s), <<>>), Hole(B, <<[x |-> "e", ty |-> s]>>)>>) :
                s \in IF e = ROW THEN {N} ELSE IF e.h \in {"num", "obj"} THEN {e} ELSE {}}
        ELSE {})

EvSeqProds ==
     {P(Tok("DS", "", "", 0, 1), <<>>)}
  \cup (IF Prof.evwhere THEN {P(Tok("Where", "e", "", 0, 1), <<Hole(EVSEQ, <<>>), Hole(B, <<[x |-> "e", ty |-> EV]>>)>>)} ELSE {})

Prods(h) ==
  CASE h.ty.h = "num"    -> NumProds(h.env)
    [] h.ty.h = "bool"   -> BoolProds(h.env)
    [] h.ty.h = "obj"    -> ObjProds(h.ty.c, h.env)
    [] h.ty.h = "seq"    -> SeqProds(h.ty.e, h.env)
    [] h.ty.h = "vec"    -> VecProds(h.ty.e, h.env)
    [] h.ty.h = "row"    -> RowProds(h.env)
    [] h.ty.h = "item"   -> ItemProds(h.env)
    [] h.ty.h = "ev"     -> VarProds(EV, h.env)
    [] h.ty.h = "top"    -> TopProds(h.ty.e)
    [] h.ty.h = "evseq"  -> EvSeqProds
    [] h.ty.h = "tup"    -> {P(Tok("Var", x, "", 0, 1), <<>>) : x \in VarsOf(h.env, h.ty)}
                            \cup (IF VarsOf(h.env, h.ty) = {} THEN {P(Tok("Tuple", "", "", 2, 1), <<Hole(h.ty.v[1], h.env), Hole(h.ty.v[2], h.env)>>)} ELSE {})
    [] h.ty.h = "dict"   -> {P(Tok("Var", x, "", 0, 1), <<>>) : x \in VarsOf(h.env, h.ty)}
                            \cup (IF VarsOf(h.env, h.ty) = {} THEN {P(Tok("Dict", "", "", 2, 1), <<Hole(KEY("ca"), h.env), Hole(h.ty.v[1], h.env),
                                                                                                 Hole(KEY("cb"), h.env), Hole(h.ty.v[2], h.env)>>)} ELSE {})
    [] h.ty.h = "key"    -> {P(Tok("Str", h.ty.c, "", 0, 1), <<>>)}
    [] h.ty.h = "root"   -> TopProds(ROW) \cup
                            {P(Tok("Root", "mytree", "myfile", n, 1),
                               <<Hole(TOP(ROW), <<>>)>> \o [i \in 1..n |-> Hole(KEY(<<"ca", "cb", "cc">>[i]), <<>>)]) : n \in Prof.rootnames}
    [] h.ty.h = "iconst" -> {P(Tok("Const", "int", "", i, 1), <<>>) : i \in Prof.iconsts}
    [] h.ty.h = "fncall" -> {P(Tok("UserFn", UserFns[i].id, UserFns[i].style, Len(UserFns[i].params), 1),
                               [j \in 1..Len(UserFns[i].params) |-> Hole(N, h.env)]) :
                               i \in {i \in DOMAIN UserFns : UserFns[i].id \in Prof.letfn /\ UserFns[i].style = "function"}}

----------------------------------------------------------------------------
(* the machine *)
\* where derivations start: the whole query, or (per-object profiles) the body of
\*   ds.SelectMany(lambda e: e.<A>("bk1")).Select(lambda e: <hole>)
\*   "perobj_div" / "perobj_rdiv": the body is  <hole> / <int constant>  /  <int constant> / <hole>  - the context in which
\*   an expression whose C++ type is not the type the translator thinks it has shows as an integer division
PerObjToks == <<Tok("Select", "e", "", 0, 1), Tok("SelectMany", "e", "", 0, 1), Tok("DS", "", "", 0, 1),
                Tok("Coll", "A", "bk1", 0, 1), Tok("Var", "e", "", 0, 1)>>
PerObjEnv == <<[x |-> "e", ty |-> O("A")]>>
StartToks == CASE Prof.start = "perobj" -> PerObjToks
               [] Prof.start = "perobj_div" -> Append(PerObjToks, Tok("Bin", "/", "", 0, 1))
               [] Prof.start = "perobj_rdiv" -> PerObjToks \o <<Tok("Bin", "/", "", 0, 1), Tok("Const", "int", "", 2, 1)>>
               [] OTHER -> <<>>
StartAgenda == IF Prof.start = "perobj" THEN <<Hole(ROW, PerObjEnv)>>
               ELSE IF Prof.start = "perobj_div" THEN <<Hole(N, PerObjEnv), Hole(ICONST, PerObjEnv)>>
               ELSE IF Prof.start = "perobj_rdiv" THEN <<Hole(N, PerObjEnv)>>
               ELSE IF Prof.rootnames = {} THEN <<Hole(TOP(ROW), <<>>)>> ELSE <<Hole([h |-> "root"], <<>>)>>
GInit == toks = StartToks /\ agenda = StartAgenda

Fill(p) == /\ toks' = Append(toks, p.tok)
           /\ agenda' = p.holes \o Tail(agenda)
           /\ Len(toks') + MinToks(agenda', 1) <= MaxSize
           \* simulation profiles: do not close a derivation before it has some depth
           /\ (agenda' = <<>> => Len(toks') >= Prof.mindone)

GNext == agenda # <<>> /\ \E p \in Prods(Head(agenda)) : Fill(p)
GSpec == GInit /\ [][GNext]_gvars

Complete == agenda = <<>>

----------------------------------------------------------------------------
(* prefix tokens -> tree *)
Arity(tk) ==
  CASE tk.k \in {"DS", "Const", "Str", "Var", "Lit"} -> 0
    [] tk.k \in {"First", "Count", "Sum", "Min", "Max", "Coll", "Single", "Un", "TupIdx", "DictGet", "Meta", "EnumCmp", "EnumArg", "NonNull"} -> 1
    [] tk.k \in {"Select", "SelectMany", "Where", "Range", "Idx", "Bin", "Cmp", "Let"} -> 2
    [] tk.k \in {"Aggregate", "If"} -> 3
    [] tk.k \in {"And", "Or", "Tuple", "List", "Math", "UserFn"} -> tk.n
    [] tk.k = "Meth" -> 1 + tk.n
    [] tk.k = "Root" -> 1 + tk.n
    [] tk.k = "Dict" -> 2 * tk.n

RECURSIVE ParseAt(_, _), ParseKids(_, _, _)
ParseKids(ts, i, cnt) ==
  IF cnt = 0 THEN [ch |-> <<>>, nx |-> i]
  ELSE LET first == ParseAt(ts, i)
           rest == ParseKids(ts, first.nx, cnt - 1)
       IN [ch |-> <<first.t>> \o rest.ch, nx |-> rest.nx]
ParseAt(ts, i) ==
  LET tk == ts[i]
      kids == ParseKids(ts, i + 1, Arity(tk))
  IN [t |-> [k |-> tk.k, a |-> tk.a, b |-> tk.b, n |-> tk.n, d |-> tk.d, ch |-> kids.ch], nx |-> kids.nx]
Parse(ts) == ParseAt(ts, 1).t

\* printed once per complete query
\* (profiles may ask for certain node kinds: only queries that contain them are exported)
Wanted == /\ Prof.must \subseteq {toks[i].k : i \in DOMAIN toks}
          /\ (Prof.mustany = {} \/ \E i \in DOMAIN toks : toks[i].k \in Prof.mustany \/ toks[i].a \in Prof.mustany)
Export == Complete /\ Wanted => LET q == Parse(toks) IN PrintT(<<"CASE", ToJson([q |-> q, support |-> Support(q)])>>)
=============================================================================
