CONSTANTS
  BlockNames = {"x", "y"}
  MaxLen = 3
INIT IInit
NEXT INext
INVARIANT LoopMeetsOutcome
INVARIANT LoopMeetsSlots
INVARIANT Export
