CONSTANTS
  MaxSize = 9
  Prof <- ProfColl
  MathTable <- NoTable
  GenBackend = "cms_miniaod"
INIT GInit
NEXT GNext
INVARIANT Export
