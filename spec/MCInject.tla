------------------------------ MODULE MCInject ------------------------------
(* The ingestion of inject_code blocks as coded (common/meta_data.py: process_metadata with
   ok_to_add_code_block; common/executor.py: _ib_fetch concatenates the kept blocks' fields in
   order), explored by TLC for every block list in scope and checked against Inject.Outcome /
   Inject.Slots.  Every block list is exported for replay into the real code.               *)
EXTENDS Inject

VARIABLES bl, k, kept, result
ivars == <<bl, k, kept, result>>

IInit == bl \in BlockLists /\ k = 1 /\ kept = <<>> /\ result = "none"

\* for md in md_list: ... InjectCodeBlock(**info) / ok_to_add_code_block(spec, cpp_funcs)
Ingest ==
  /\ result = "none" /\ k <= Len(bl)
  /\ LET b == bl[k] IN
     IF b.bad THEN result' = "error" /\ UNCHANGED <<kept, k>>
     ELSE IF \E i \in DOMAIN kept : kept[i].name = b.name /\ ~SameContent(kept[i], b)
          THEN result' = "error" /\ UNCHANGED <<kept, k>>
          ELSE /\ kept' = IF \E i \in DOMAIN kept : kept[i].name = b.name THEN kept ELSE Append(kept, b)
               /\ k' = k + 1 /\ UNCHANGED result
  /\ UNCHANGED bl
Finish == result = "none" /\ k > Len(bl) /\ result' = "ok" /\ UNCHANGED <<bl, k, kept>>
INext == Ingest \/ Finish

RECURSIVE KeptLines(_, _, _)
KeptLines(ks, f, i) == IF i > Len(ks) THEN <<>> ELSE LinesOf(ks[i], f) \o KeptLines(ks, f, i + 1)

LoopMeetsOutcome == result # "none" => result = Outcome(bl)
LoopMeetsSlots == result = "ok" => \A i \in DOMAIN Fields : KeptLines(kept, Fields[i], 1) = Slots(bl, Fields[i])
Export == (k = 1 /\ result = "none" /\ kept = <<>>) => PrintT(<<"BLOCKS", ToJson(bl)>>)

\* the text table, for the harness to build the metadata dictionaries from
LineTable == [s \in Shapes |-> [f \in {Fields[i] : i \in DOMAIN Fields} |-> LinesOf([shape |-> s], f)]]
ASSUME PrintT(<<"LINES", ToJson(LineTable)>>)
=============================================================================
