CONSTANTS
  MaxSize = 11
  Prof <- ProfLet
  MathTable <- NoTable
  GenBackend = "any"
INIT GInit
NEXT GNext
INVARIANT Export
