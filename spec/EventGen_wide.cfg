CONSTANTS
  MaxObj = 2
  Wide = TRUE
  MathTable <- NoTable
INIT EInit
NEXT ENext
INVARIANT Export
