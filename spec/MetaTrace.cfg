INIT TInit
NEXT TNext
