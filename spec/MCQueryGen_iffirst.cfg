CONSTANTS
  MaxSize = 15
  Prof <- ProfIfFirst
  MathTable <- NoTable
  GenBackend = "any"
INIT GInit
NEXT GNext
INVARIANT Export
