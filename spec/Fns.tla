-------------------------------- MODULE Fns --------------------------------
EXTENDS Sequences
(* C++ functions supplied through metadata (C11).  Each has a known, asymmetric meaning so that a
   swapped, captured or half-substituted argument changes the value:
     lin2   10*p1 + p2          lin3  100*p1 + 10*p2 + p3      inc  p1 + 1
     twice  vp_twice(p1) = 2*p1 (vp_twice comes from the function's include file)
     meth   2*obj->pt() + p1    (method style: obj is bound to the receiver)
     lit    0.5*p1 + 0.001*p2   (the code is full of numeric literals with suffix / exponent letters)
     pair   the collection <<p1, p2>>
   Parameter names collide on purpose with method names used in actual arguments (pt, eta, a, b, n, m),
   with each other as prefixes (x, xx) and with the default result name.                              *)
UserFns == <<
  [id |-> "vp_lin_pt_eta", params |-> <<"pt", "eta">>,    meaning |-> "lin2",  result |-> "result", style |-> "function", include |-> ""],
  [id |-> "vp_lin_eta_pt", params |-> <<"eta", "pt">>,    meaning |-> "lin2",  result |-> "result", style |-> "function", include |-> ""],
  [id |-> "vp_lin_a_b",    params |-> <<"a", "b">>,       meaning |-> "lin2",  result |-> "result", style |-> "function", include |-> ""],
  [id |-> "vp_lin_x_xx",   params |-> <<"x", "xx">>,      meaning |-> "lin2",  result |-> "result", style |-> "function", include |-> ""],
  [id |-> "vp_three",      params |-> <<"n", "m", "pt">>, meaning |-> "lin3",  result |-> "result", style |-> "function", include |-> ""],
  [id |-> "vp_inc_res",    params |-> <<"val">>,          meaning |-> "inc",   result |-> "res",    style |-> "function", include |-> ""],
  [id |-> "vp_incl",       params |-> <<"v">>,            meaning |-> "twice", result |-> "result", style |-> "function", include |-> "vp_userfn.h"],
  [id |-> "vp_meth",       params |-> <<"k">>,            meaning |-> "meth",  result |-> "result", style |-> "method",   include |-> ""],
  [id |-> "vp_pair",       params |-> <<"pt", "eta">>,    meaning |-> "pair",  result |-> "result", style |-> "function", include |-> ""],
  \* parameters spelled like the suffix / exponent letters of the numeric literals in the code (0.5f, 1e-3, 1000L)
  [id |-> "vp_lit_f_e",    params |-> <<"f", "e">>,       meaning |-> "lit",   result |-> "result", style |-> "function", include |-> ""],
  [id |-> "vp_lit_L_u",    params |-> <<"L", "u">>,       meaning |-> "lit",   result |-> "result", style |-> "function", include |-> ""]
>>
FnById(id) == UserFns[CHOOSE i \in DOMAIN UserFns : UserFns[i].id = id]

\* deref: "->" where the backend hands objects around by pointer (ATLAS), "." where by value (CMS)
FnCode(f, deref) ==
  LET p == f.params  r == f.result IN
  CASE f.meaning = "lin2"  -> <<"auto " \o r \o " = 10.0*" \o p[1] \o " + " \o p[2] \o ";">>
    [] f.meaning = "lin3"  -> <<"double vp_tmp = 100.0*" \o p[1] \o " + 10.0*" \o p[2] \o ";", "auto " \o r \o " = vp_tmp + " \o p[3] \o ";">>
    [] f.meaning = "lit"   -> <<"double vp_k = 1000L * 1e-3 + 10u - 10;", "auto " \o r \o " = 0.5f * " \o p[1] \o " * vp_k + 1e-3 * " \o p[2] \o ";">>
    [] f.meaning = "inc"   -> <<"auto " \o r \o " = " \o p[1] \o " + 1.0;">>
    [] f.meaning = "twice" -> <<"auto " \o r \o " = vp_twice(" \o p[1] \o ");">>
    \* the receiver may be a pointer (ATLAS elements, any link) or a value (CMS elements): vp::p gives a pointer to either
    [] f.meaning = "meth"  -> <<"auto " \o r \o " = 2.0*vp::p(obj)->pt() + " \o p[1] \o ";">>
    [] f.meaning = "pair"  -> <<"std::vector<double> " \o r \o ";", r \o ".push_back(" \o p[1] \o ");", r \o ".push_back(" \o p[2] \o ");">>
=============================================================================
