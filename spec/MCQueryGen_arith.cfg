CONSTANTS
  MaxSize = 10
  Prof <- ProfArith
  MathTable <- NoTable
INIT GInit
NEXT GNext
INVARIANT Export
