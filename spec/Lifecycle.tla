----------------------------- MODULE Lifecycle -----------------------------
(* Machine M2: one long-lived code-generator process translating many queries
   (property C07).

   State that survives a translation in such a process:
     mt      - the process-global method-type registry holds a declaration of an earlier query
     en      - the process-global namespace/enum registry holds an enum of an earlier query
     shared  - the default extended-metadata dict shared by all executors was written to
     blk[x]  - executor x still holds inject / job-script blocks of an earlier query
     fnd[x]  - executor x still holds extended metadata found in an earlier query
     nm[x]   - executor x's table of callable names (collections, C++ functions) still holds a
               collection or a function that an earlier query declared through metadata
   An operation is one (query, metadata) handled on an executor:
     kind   decl | decldef | enum | block | ext | coll | fn | plain   what its metadata declares
            (coll: a collection replacing the built-in of the same name plus a new one; fn: a C++ function)
     out    ok | tfail | rfail | mfail               succeeds / the translation (write) raises after
                                                     the metadata was applied / the client-side
                                                     rewrite raises after the metadata was applied
                                                     (e.g. a collection called without its bank) /
                                                     a later metadata item itself raises
     on     same | other | otherbk | otherbk2        the executor the probe will use, another
                                                     instance, an executor of another backend (CMS AOD),
                                                     of a third backend (CMS miniAOD)
   Two instantiations of the effect of an operation:
     Impl = "as_implemented"  reset() only after a successful write, enums never cleared, ...
                              (the tree before the C07 repairs; TLC produces the shortest leaks)
     Impl = "required"        every translation leaves the process pristine
   Property: PristineAtApply - whenever a translation starts, nothing of an earlier query
   is left; equivalently (observable form, checked on the real code by LifecycleTrace) the
   package produced for a probe query is a function of the probe alone.                    *)
EXTENDS Naturals, Sequences, TLC, Json

CONSTANTS MaxLen, Impl

\* decldef: declares a method of a class that already carries built-in default declarations
\* (ATLAS xAOD::TruthParticle), whose table is re-installed by every reset
Kinds == {"decl", "decldef", "enum", "block", "ext", "coll", "fn", "plain"}
Decls == {"decl", "decldef"}
Outs  == {"ok", "tfail", "rfail", "mfail"}
Execs == {"same", "other", "otherbk", "otherbk2"}
Op == [kind : Kinds, out : Outs, on : Execs]

VARIABLES hist, mt, en, shared, blk, fnd, nm
vars == <<hist, mt, en, shared, blk, fnd, nm>>

Pristine == mt = FALSE /\ en = FALSE /\ shared = FALSE
            /\ blk = [x \in Execs |-> FALSE] /\ fnd = [x \in Execs |-> FALSE]
            /\ nm = [x \in Execs |-> FALSE]

Init == hist = <<>> /\ Pristine

\* as the code stood: metadata items mutate the registries as they are processed; reset()
\* (blocks, ext md of this executor, method registry) runs only at the end of a successful write
ApplyImpl(op) ==
  LET applied == op.out \in {"ok", "tfail", "rfail"} \/ op.kind \in Decls \cup {"enum"}   \* mfail: items before the bad one
      didReset == op.out = "ok" IN
  /\ mt' = IF didReset THEN FALSE ELSE (mt \/ (op.kind \in Decls /\ applied))
  /\ en' = (en \/ (op.kind = "enum" /\ applied))
  /\ shared' = (shared \/ op.kind = "ext")
  /\ blk' = [blk EXCEPT ![op.on] = IF didReset THEN FALSE ELSE (@ \/ (op.kind = "block" /\ op.out \in {"tfail", "rfail"}))]
  /\ fnd' = [fnd EXCEPT ![op.on] = @ \/ (op.kind = "ext" /\ op.out # "mfail")]
  /\ nm' = nm      \* the code merges the declared names into a copy of the executor's table: nothing stays

ApplyRequired(op) == mt' = FALSE /\ en' = FALSE /\ shared' = FALSE
                     /\ blk' = [x \in Execs |-> FALSE] /\ fnd' = [x \in Execs |-> FALSE]
                     /\ nm' = [x \in Execs |-> FALSE]

Do(op) == /\ Len(hist) < MaxLen
          /\ hist' = Append(hist, op)
          /\ IF Impl = "required" THEN ApplyRequired(op) ELSE ApplyImpl(op)

Next == \E op \in Op : Do(op)
Spec == Init /\ [][Next]_vars

\* a translation (the next operation, or a probe) starts here
PristineAtApply == Pristine

\* every history is exported for replay into the real code
Export == PrintT(<<"HIST", ToJson(hist)>>)
=============================================================================
