CONSTANTS
  MaxSize = 12
  Prof <- ProfUserFnF
  MathTable <- NoTable
  GenBackend = "any"
INIT GInit
NEXT GNext
INVARIANT Export
