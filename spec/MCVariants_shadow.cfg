CONSTANTS
  MaxSize = 24
  Prof <- ProfShadow
  MathTable <- NoTable
  GenBackend = "any"
INIT GInit
NEXT GNext
INVARIANT ExportVariants
