CONSTANTS
  MaxSize = 24
  Prof <- ProfShadow
  MathTable <- NoTable
INIT GInit
NEXT GNext
INVARIANT ExportVariants
