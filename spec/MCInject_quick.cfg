CONSTANTS
  BlockNames = {"x", "y"}
  MaxLen = 2
INIT IInit
NEXT INext
INVARIANT LoopMeetsOutcome
INVARIANT LoopMeetsSlots
INVARIANT Export
