----------------------------- MODULE RunnerTrace -----------------------------
(* Trace validation for C16.  TRACE_FILE: a list of observed invocation sequences, each run
   from a fresh container image in the namespace sandbox with the real rendered runner.sh:
     [script, invs |-> <<[kind, d, o, fault_at, cls, exit,
                          dests |-> <<[path, run, inputs, converted, ident]>>]>>]
   `run` is the id (position in the sequence) of the invocation whose job wrote the file;
   `ident` identifies the file itself (modification time, size, content digest): a file that was
   rewritten, truncated, touched or created by this invocation differs from what was there before.
   Every invocation is one step of the Runner machine; the clauses below are the property.   *)
EXTENDS RunnerReq, Json, IOUtils

Obs == JsonDeserialize(IOEnv.TRACE_FILE)

VARIABLES s, i, b
tvars == <<s, i, b>>

Sq == Obs[s]
Rec == Sq.invs[i + 1]
Inv == [kind |-> Rec.kind, d |-> Rec.d, o |-> Rec.o]
Prev == IF i = 0 THEN <<>> ELSE Sq.invs[i].dests

Holds(dests, p) == \E j \in DOMAIN dests : dests[j].path = p
At(dests, p) == dests[CHOOSE j \in DOMAIN dests : dests[j].path = p]
Same(d1, d2, p) == (Holds(d1, p) = Holds(d2, p)) /\ (Holds(d1, p) => At(d1, p) = At(d2, p))
Me == ToString(i + 1)
FreshAnywhere(dests) == \E j \in DOMAIN dests : dests[j].path \in Paths /\ dests[j].run = Me
\* after a failed invocation a destination is either what it was before or gone: anything else is a fresh file
\* (an empty or truncated one, a re-stamped old one) that a consumer would take for this run's output
FreshFile(prev, now) == \E p \in Paths : Holds(now, p) /\ ~(Holds(prev, p) /\ At(prev, p) = At(now, p))

Fails ==
  LET oc == Outcome(Inv, Rec.cls, b)
      tgt == TargetOf(Inv)
      now == Rec.dests IN
  (IF oc = "exit10" /\ Rec.exit # 10 THEN {"FlagExitCodes"} ELSE {})
  \cup (IF oc = "exit1" /\ Rec.exit # 1 THEN {"FlagExitCodes"} ELSE {})
  \cup (IF oc = "fail" /\ Rec.exit = 0 THEN {"NoSuccessAfterFault"} ELSE {})
  \cup (IF oc \in {"fail", "exit10", "exit1"} /\ (FreshAnywhere(now) \/ FreshFile(Prev, now)) THEN {"NoFreshOutputAfterFault"} ELSE {})
  \cup (IF oc = "ok" /\ Rec.exit # 0 THEN {"SucceedsWhenItShould"} ELSE {})
  \* holds whatever else happened
  \cup (IF Rec.exit = 0 /\ DoRun(Inv) /\ Inv.kind # "both"
        THEN (IF Holds(now, tgt) /\ At(now, tgt).run = Me /\ At(now, tgt).inputs = InputsOf(Inv)
                 /\ (At(now, tgt).converted = (Sq.script # "atlas"))
              THEN {} ELSE {"DeliversThisRun"})
        ELSE {})
  \cup (IF Inv.kind \in {"compile", "badflag", "stray"} /\ \E p \in Paths : ~Same(Prev, now, p)
        THEN {"CompileOnlyIsQuiet"} ELSE {})
  \cup (IF \E p \in Paths : p # tgt /\ ~Same(Prev, now, p) THEN {"OthersUntouched"} ELSE {})

RECURSIVE ReportAll(_)
ReportAll(fs) == IF fs = {} THEN TRUE
                 ELSE LET f == CHOOSE x \in fs : TRUE IN
                      PrintT(<<"VERDICT", s, i + 1, f>>) /\ ReportAll(fs \ {f})

TInit == s \in 1..Len(Obs) /\ i = 0 /\ b = "no"
TNext == /\ i < Len(Sq.invs)
         /\ ReportAll(Fails)
         /\ b' = NextBuilt(Inv, Rec.cls, b, Rec.exit)
         /\ i' = i + 1
         /\ UNCHANGED s
=============================================================================
