"""C17 - local docker execution runs the right image on the right files, or raises.

TLC (LocalRun) enumerates every scenario (files x docker metadata x output directory x backend x
translation outcome x container outcome), checks the design-level ordering facts, and exports
the scenarios; each runs in a fresh interpreter with the real LocalDataset classes and the
stand-in python_on_whales (harness/fake_pkgs); TLC (LocalRunTrace) validates the observations."""
import json
import multiprocessing as mp
import os
import shutil
import subprocess
import sys

import common

HERE = os.path.dirname(os.path.abspath(__file__))


def _one(args):
    i, sc, work = args
    base = os.path.join(work, "s%d" % i)
    os.makedirs(base)
    env = dict(os.environ)
    env["VERIF_REPO"] = common.REPO
    env["PYTHONHASHSEED"] = "0"
    env.pop("TMPDIR", None)
    try:
        p = subprocess.run([common.PY, os.path.join(HERE, "c17_worker.py"), json.dumps(sc), base], stdout=subprocess.PIPE,
                           stderr=subprocess.PIPE, text=True, env=env, timeout=120, cwd=base)
        for line in p.stdout.splitlines():
            if line.startswith("VPREC "):
                return json.loads(line[6:])
        raise common.MachineryError("scenario worker produced no record: %s %s" % (p.stdout[-300:], p.stderr[-600:]))
    finally:
        shutil.rmtree(base, ignore_errors=True)


def run(tier, only=None):
    rep = common.Report("C17", tier)
    design = common.run_tlc("LocalRun", "LocalRun.cfg")
    scs = design.tagged("SCENARIO")
    seen = set()
    uniq = []
    for s in scs:
        k = json.dumps(s, sort_keys=True)
        if k not in seen:
            seen.add(k)
            uniq.append(s)
    scs = uniq
    total = len(scs)
    exhaustive = True
    if tier == "quick" and not only:
        # every scenario without an earlier use and with the two basic metadata settings (the original space), and a
        # seeded sample of the rest; the thorough tier runs them all
        import random
        rnd = random.Random(common.seed())
        core = [s for s in scs if s["prior"] == "none" and s["md"] in ("absent", "present")]
        rest = [s for s in scs if not (s["prior"] == "none" and s["md"] in ("absent", "present"))]
        scs = core + rnd.sample(rest, min(len(rest), 1600))
        exhaustive = False
    if only:
        scs = only
    work = common.scratch("verif.c17.")
    ctx = mp.get_context("fork")
    with ctx.Pool(processes=common.NCPU) as pool:
        recs = pool.map(_one, [(i, s, work) for i, s in enumerate(scs)], chunksize=2)
    tf = os.path.join(work, "trace.json")
    json.dump([{k: r[k] for k in ("sc", "raised", "exc", "calls", "returned", "returned_in_outdir", "result_is_containers",
                                  "tmp_left", "pkg_dir_is_tmp", "e2e_inputs")} for r in recs], open(tf, "w"))
    val = common.run_tlc("LocalRunTrace", "LocalRunTrace.cfg", env={"TRACE_FILE": tf})
    if val.distinct != 2 * len(recs):
        raise common.MachineryError("trace validation visited %d states, expected %d" % (val.distinct, 2 * len(recs)))
    for _, idx, clause in val.plain("VERDICT"):
        r = recs[idx - 1]
        sc = r["sc"]
        key = "%s:%s" % (clause, ",".join("%s=%s" % (k, sc[k]) for k in sorted(sc)))
        rep.fail(key, {"clause": clause, "scenario": sc, "observed": r})
    cov = {
        "states": design.distinct + val.distinct,
        "transitions": design.generated + val.generated,
        "traces_validated_against_impl": len(recs),
        "evaluations": len(recs),
        "distinct_nontrivial": sum(1 for r in recs if r["calls"]),
        "rule": "scenarios of spec/LocalRunReq.tla, all of them in the thorough tier, in the quick tier every scenario without an earlier use and with docker metadata absent / alone plus a seeded sample of 1600 of the others (8 file configurations x 5 metadata chains (docker metadata absent, alone, before / after a value-less declaration, with a job script) x output directory x 3 backends x translation ok/fails x "
                "5 container outcomes (one of them the real runner.sh of the package run in the C16 namespace sandbox on the volumes and command docker.run received) x 4 earlier uses of the same dataset object (none, a query with docker metadata that ran, one that failed, this very query object executed once already) = %d), each in a fresh interpreter; non-trivial = the scenario reaches the container start" % len(scs),
        "exhaustive": exhaustive,
        "scenarios_enumerated": total,
        "raised": sum(1 for r in recs if r["raised"]),
        "returned": sum(1 for r in recs if r["returned"]),
        "samples": [recs[0], recs[len(recs) // 2]],
    }
    return rep.finish("model_checking", cov, assumptions=[
        "python_on_whales is replaced by the stand-in in harness/fake_pkgs (the property names this as the hook); it logs docker.run's arguments, reads "
        "filelist.txt from the /scripts mount and behaves as the scenario's container outcome says",
        "TMPDIR is pointed at a private directory so that leftovers of the temporary working directory are visible",
    ])


def replay(path):
    r = json.load(open(path))
    return run("quick", only=[r["scenario"]])
