"""C07 - translating a query is independent of every query handled before it.

 1. design: TLC checks spec/Lifecycle.tla (required behaviour: pristine at every apply) and
    enumerates every history of operations up to MaxLen; the as-implemented instantiation is
    run as well and its shortest leaking history is recorded.
 2. spec -> code: every history is replayed in a process forked from a warm, pristine parent
    (real executors, real metadata, real failures); after it each probe query is translated
    in its own fork and its normalised package is digested.
 3. code -> spec: TLC (LifecycleTrace.tla) requires every probe's digest after every history to
    equal the digest of the same probe in a fresh process."""
import hashlib
import json
import multiprocessing as mp
import os
import random
import shutil
import sys
import tempfile

import common
import normalise
import translate

PROBE_BACKEND = "atlas"


class ExtProbe:
    "stand-in for an extended metadata property object (like the docker image specification)"

    def __init__(self, image=""):
        self.image = image

    def __repr__(self):
        return "ExtProbe(%r)" % self.image


_COLL = {"atlas": ("Jets", "xAOD::Jet"), "cms_aod": ("Muons", "reco::Muon"), "cms_miniaod": ("Muons", "pat::Muon")}

_MD = {
    "decl": [{"metadata_type": "add_method_type_info", "type_string": "xAOD::Jet", "method_name": "pt", "return_type": "int"}],
    "decldef": [{"metadata_type": "add_method_type_info", "type_string": "xAOD::TruthParticle", "method_name": "pt", "return_type": "int"},
                {"metadata_type": "add_method_type_info", "type_string": "xAOD::TruthParticle", "method_name": "parent", "return_type": "int"}],
    "enum": [{"metadata_type": "define_enum", "namespace": "xAOD.Jet", "name": "Color", "values": ["Red", "Blue"]}],
    "block": [{"metadata_type": "inject_code", "name": "leak_block", "body_includes": ["leak_body.h"], "header_includes": ["leak_header.h"],
               "private_members": ["int m_leak;"], "instance_initialization": ["m_leak(1)"], "ctor_lines": ["leak_ctor();"],
               "initialize_lines": ["leak_init();"], "link_libraries": ["LeakLib"]},
              {"metadata_type": "add_job_script", "name": "leak_script", "script": ["leak_job_option()"]}],
    "ext": [{"metadata_type": "vpext", "image": "leaked-image"}],
    # a collection replacing the built-in the probes use, and a new one (per backend: _md_for)
    "coll": None,
    "fn": [{"metadata_type": "add_cpp_function", "name": "vp_leak_fn", "include_files": ["vp_leak_fn.h"], "arguments": ["x"],
            "code": ["auto result = x * 3;"], "result_name": "result", "return_type": "int"}],
    "plain": [],
}
_COLL_MD = {
    "atlas": lambda name: {"metadata_type": "add_atlas_event_collection_info", "name": name, "include_files": ["xAODCaloEvent/CaloClusterContainer.h"],
                           "container_type": "xAOD::CaloClusterContainer", "element_type": "xAOD::CaloCluster", "contains_collection": True,
                           "link_libraries": ["xAODCaloEvent"]},
    "cms_aod": lambda name: {"metadata_type": "add_cms_aod_event_collection_info", "name": name, "include_files": ["DataFormats/VpLeak/interface/Leak.h"],
                             "container_type": "reco::VpLeakCollection", "element_type": "reco::VpLeak", "contains_collection": True, "element_pointer": False},
}
_COLL_MD["cms_miniaod"] = lambda name: dict(_COLL_MD["cms_aod"](name), metadata_type="add_cms_miniaod_event_collection_info")


def _md_for(kind, backend):
    if kind == "coll":
        return [_COLL_MD[backend](_COLL[backend][0]), _COLL_MD[backend]("VpLeakColl")]
    return list(_MD[kind])
_BAD_MD = {"metadata_type": "no_such_metadata_type_vp"}



def _query(backend, md_list, body="j.pt()", bank='"bk1"', coll=None):
    src = 'EventDataset("vp")'
    for m in reversed(md_list):
        src = "MetaData(%s, %r)" % (src, m)
    return 'Select(%s, lambda e: e.%s(%s).Select(lambda j: %s))' % (src, coll or _COLL[backend][0], bank, body)


def _run_op(op, execs, outdir):
    """One operation of a history on the real code.  Returns the observed outcome."""
    backend = {"otherbk": "cms_aod", "otherbk2": "cms_miniaod"}.get(op["on"], "atlas")
    if op["on"] == "same":
        exe = execs["same"]
    else:
        exe = translate.executor_for(backend)
    md = _md_for(op["kind"], backend)
    if op["kind"] == "ext":
        exe.add_extended_md({"vpext": ExtProbe()})
    if op["out"] == "mfail":
        md = md + [_BAD_MD]
    body = "j.pt()"
    bank = '"bk1"'
    if op["out"] == "tfail":
        body = "(1 < j.pt() < 2)"       # comparison chains are refused during translation (write_cpp_files)
    if op["out"] == "rfail":
        bank = ""                       # a collection without its bank is refused by the client-side rewrite
    res = translate.translate_source(_query(backend, md, body, bank), backend, outdir, exe=exe)
    shutil.rmtree(outdir, ignore_errors=True)
    return res["outcome"]


PROBES = ["pt_same", "pt_new", "enum_same", "blocks_same", "cms_new", "mini_new", "truth_same", "truth_new", "again_same",
          "newcoll_same", "fn_same", "rewrite_same", "rewrite_mini", "cmsdef_new", "minidef_new", "recoll_same"]


def _run_probe(probe, execs, outdir, fresh=False):
    import func_adl_xAOD.common.cpp_types as ctyp
    if probe == "pt_same":
        exe, backend, src = execs["same"], "atlas", _query("atlas", [])
    elif probe == "pt_new":
        exe, backend, src = None, "atlas", _query("atlas", [])
    elif probe == "enum_same":
        exe, backend, src = execs["same"], "atlas", _query("atlas", [], "j.color(xAOD.Jet.Color.Red)")
    elif probe == "blocks_same":
        md = [{"metadata_type": "inject_code", "name": "probe_block", "body_includes": ["probe_body.h"], "ctor_lines": ["probe_ctor();"]},
              {"metadata_type": "add_job_script", "name": "probe_script", "script": ["probe_job_option()"]}]
        exe, backend, src = execs["same"], "atlas", _query("atlas", md)
    elif probe in ("truth_same", "truth_new"):
        # a class with built-in default declarations: an undeclared method and a default-declared one
        exe, backend = (execs["same"] if probe == "truth_same" else None), "atlas"
        src = ('Select(EventDataset("vp"), lambda e: (e.TruthParticles("bk1").Select(lambda j: j.pt()), '
               'e.TruthParticles("bk1").Select(lambda j: j.parent().pt())))')
    elif probe == "again_same":
        # a query that carries its own declaration, as ONE object translated a second time: the history of
        # this probe always contains "this very object was translated before"; the reference (empty
        # history) is its first translation
        exe, backend, src = execs["same"], "atlas", _query("atlas", _MD["decl"] + _MD["block"])
    elif probe in ("rewrite_same", "rewrite_mini"):
        # ONE transformed tree written out twice (a retry, a second output directory): the history of this probe always
        # contains "this very tree was written before"; the reference is its first package.  The query carries no
        # metadata: blocks and scripts live in the executor between apply and write and are (legitimately) gone after
        # the first write; what the tree itself carries (collection accesses, tokens) must come out again
        backend = "atlas" if probe == "rewrite_same" else "cms_miniaod"
        exe = execs["same"] if probe == "rewrite_same" else None
        src = _query(backend, [], "j.pt() + e.%s(\"bk2\").Count()" % _COLL[backend][0])
    elif probe in ("cmsdef_new", "minidef_new"):
        # a method whose type comes from the backend's own default declarations (bool), on each CMS backend
        backend = "cms_aod" if probe == "cmsdef_new" else "cms_miniaod"
        exe, src = None, _query(backend, [], "j.isPFMuon()")
    elif probe == "recoll_same":
        # the probe itself declares the collection an earlier query may have declared - DIFFERENTLY (another container,
        # header and library): its own declaration is the one that counts
        md = dict(_COLL_MD["atlas"]("VpLeakColl"), container_type="xAOD::VpOtherContainer", element_type="xAOD::VpOther",
                  include_files=["xAODVpOther/VpOtherContainer.h"], link_libraries=["xAODVpOther"])
        exe, backend, src = execs["same"], "atlas", _query("atlas", [md], coll="VpLeakColl")
    elif probe == "newcoll_same":
        # a collection no backend knows: refused in a fresh process, and after any history
        exe, backend, src = execs["same"], "atlas", _query("atlas", [], coll="VpLeakColl")
    elif probe == "fn_same":
        # a function nobody declared in THIS query
        exe, backend, src = execs["same"], "atlas", _query("atlas", [], "vp_leak_fn(j.pt())")
    elif probe == "cms_new":
        exe, backend, src = None, "cms_aod", _query("cms_aod", [])
    elif probe == "mini_new":
        # shares every file name with the CMS AOD package (another template directory)
        exe, backend, src = None, "cms_miniaod", _query("cms_miniaod", [])
    else:
        raise common.MachineryError("unknown probe " + probe)
    if exe is None:
        exe = translate.executor_for(backend)
    res = translate.translate_source(src, backend, outdir, exe=exe, twice=(probe == "again_same" and not fresh),
                                     rewrite=(probe.startswith("rewrite_") and not fresh))
    text = []
    if res["outcome"] == "ok":
        for f in sorted(os.listdir(outdir)):
            # (the files rendered from static templates are part of the package too: a template served from
            # another backend's directory shows here)
            text.append("=== %s\n%s" % (f, normalise.names(open(os.path.join(outdir, f), errors="replace").read())))
    found = {k: repr(v) for k, v in sorted(getattr(exe, "_found_extended_md", {}).items()) if v}
    proj = {"outcome": res["outcome"], "exc": res["exc"], "warnings": len(res["warnings"]), "found_ext_md": found,
            "text": "\n".join(text)}
    blob = json.dumps(proj, sort_keys=True)
    return {"digest": hashlib.sha1(blob.encode()).hexdigest()[:16], "outcome": res["outcome"], "exc": res["exc"],
            "blob": blob}


def _registry_projection():
    import func_adl_xAOD.common.cpp_types as ctyp
    from func_adl_xAOD.common import executor as ex
    default_md = ex.executor.__init__.__defaults__[0] if ex.executor.__init__.__defaults__ else None
    return {"method_keys": sorted("%s.%s" % (t, m) for t, d in ctyp.g_method_type_dict.items() for m in d),
            "enum_ns": sorted(ctyp.g_toplevel_ns.keys()),
            "shared_default_md": sorted(default_md.keys()) if isinstance(default_md, dict) else []}


def _one_history(args):
    idx, hist, work = args[:3]
    fresh_digests = args[3] if len(args) > 3 else {}
    d = os.path.join(work, "h%d" % idx)
    os.makedirs(d, exist_ok=True)
    execs = {"same": translate.executor_for(PROBE_BACKEND)}
    outcomes = [_run_op(op, execs, os.path.join(d, "op")) for op in hist]
    proj = _registry_projection()
    recs = []
    for probe in PROBES:
        out = os.path.join(d, "probe_" + probe + ".json")
        pid = os.fork()
        if pid == 0:
            code = 0
            try:
                r = _run_probe(probe, execs, os.path.join(d, "p_" + probe), fresh=not hist)
                json.dump(r, open(out, "w"))
            except BaseException as e:  # noqa
                json.dump({"digest": "machinery:" + repr(e)[:200], "outcome": "machinery", "exc": type(e).__name__, "blob": ""}, open(out, "w"))
                code = 3
            os._exit(code)
        os.waitpid(pid, 0)
        r = json.load(open(out))
        # the package text is only kept where it differs from the fresh-process package (it is what the replay file shows)
        keep = fresh_digests.get(probe) != r["digest"]
        recs.append({"hist": hist, "hid": idx, "probe": probe, "digest": r["digest"], "outcome": r["outcome"], "exc": r["exc"],
                     "blob": r["blob"] if keep else "", "op_outcomes": outcomes, "registry_after_history": proj if keep else {}})
    shutil.rmtree(d, ignore_errors=True)
    return recs


def replay_histories(hists):
    common.use_repo()
    translate.executor_for("atlas")
    import pipeline
    pipeline._pristine()
    work = common.scratch("verif.c07.")
    ctx = mp.get_context("fork")
    with ctx.Pool(processes=common.NCPU, maxtasksperchild=1) as pool:
        # the empty history first: its packages are the reference (and the only ones always kept in full)
        first = pool.map(_one_history, [(i, h, work) for i, h in enumerate(hists) if not h], chunksize=1)
        fresh_digests = {r["probe"]: r["digest"] for rs in first for r in rs}
        rest = pool.map(_one_history, [(i, h, work, fresh_digests) for i, h in enumerate(hists) if h], chunksize=1)
    return [r for rs in first + rest for r in rs]


def run(tier, hists_override=None):
    rep = common.Report("C07", tier)
    # every history of up to two operations is enumerated by TLC (both tiers); the thorough tier replays them all and adds
    # histories of three operations sampled by simulation of the same machine (128^3 would be two million)
    cfg = "Lifecycle_quick.cfg"
    design = common.run_tlc("Lifecycle", cfg)
    hists = design.tagged("HIST")
    if tier == "thorough":
        sim = common.run_tlc("Lifecycle", "Lifecycle_thorough.cfg", workers=1,
                             extra=["-simulate", "num=4000", "-depth", "4", "-seed", str(common.seed() + 7)])
        hists = hists + [h for h in sim.tagged("HIST") if len(h) == 3]
        design.generated += sim.generated
    seen = set()
    uniq = []
    for h in hists:
        k = json.dumps(h, sort_keys=True)
        if k not in seen:
            seen.add(k)
            uniq.append(h)
    hists = sorted(uniq, key=len)
    total = len(hists)
    exhaustive = True
    cap = 2600 if tier == "quick" else 22000
    if total > cap:
        rnd = random.Random(common.seed())
        # every history of at most one operation, a seeded sample of the longer ones
        short = [h for h in hists if len(h) <= 1]
        longer = [h for h in hists if len(h) > 1]
        hists = short + rnd.sample(longer, max(0, cap - len(short)))
        exhaustive = False
    if hists_override is not None:
        hists = [[]] + hists_override
    # the as-implemented instantiation of the model: shortest leaking history (informational)
    leak = common.run_tlc("Lifecycle", "Lifecycle_impl.cfg", ok_rcs=(0, 12))
    leak_len = None
    for line in leak.out.splitlines():
        if line.startswith("State ") and ":" in line:
            leak_len = int(line.split()[1].rstrip(":")) - 1
    recs = replay_histories(hists)
    slim = [{k: r[k] for k in ("hid", "probe", "digest", "outcome", "exc")} | {"hlen": len(r["hist"])} for r in recs]
    work = common.scratch("verif.c07.")
    # validated in chunks (each with the reference records in front): TLC's time per record grows with the trace length
    ref = [r for r in slim if r["hlen"] == 0]
    rest = [(i, r) for i, r in enumerate(slim) if r["hlen"] != 0]

    class val:
        distinct = 0
        generated = 0
    verdicts = []
    CH = 20000
    for off in range(0, max(1, len(rest)), CH):
        part = rest[off:off + CH]
        tf = os.path.join(work, "trace.json")
        json.dump(ref + [r for _, r in part], open(tf, "w"))
        v = common.run_tlc("LifecycleTrace", "LifecycleTrace.cfg", env={"TRACE_FILE": tf})
        val.distinct += v.distinct - (2 * len(ref) if off else 0)
        val.generated += v.generated - (2 * len(ref) if off else 0)
        for t, idx, clause in v.plain("VERDICT"):
            if idx <= len(ref):
                if not off:
                    verdicts.append((t, [i for i, r in enumerate(slim) if r["hlen"] == 0][idx - 1] + 1, clause))
            else:
                verdicts.append((t, part[idx - len(ref) - 1][0] + 1, clause))
    if val.distinct != 2 * len(slim):
        raise common.MachineryError("trace validation visited %d states, expected %d" % (val.distinct, 2 * len(slim)))
    fresh = {r["probe"]: r for r in recs if not r["hist"]}
    for _, idx, clause in verdicts:
        r = recs[idx - 1]
        hkey = ";".join("%s/%s/%s" % (o["kind"], o["out"], o["on"]) for o in r["hist"])
        key = "%s:%s<-%s" % (clause, r["probe"], hkey)
        rep.fail(key, {"clause": clause, "history": r["hist"], "probe": r["probe"], "op_outcomes": r["op_outcomes"],
                       "registry_after_history": r["registry_after_history"],
                       "after_history": json.loads(r["blob"]) if r["blob"] else None,
                       "fresh": json.loads(fresh[r["probe"]]["blob"]) if r["probe"] in fresh and fresh[r["probe"]]["blob"] else None})
    changing = {json.dumps(r["hist"], sort_keys=True) for r in recs
                if any(o["kind"] != "plain" for o in r["hist"])}
    cov = {
        "states": design.distinct + val.distinct,
        "transitions": design.generated + val.generated,
        "traces_validated_against_impl": len(hists),
        "evaluations": len(recs),
        "distinct_nontrivial": len(changing),
        "rule": "histories: every sequence of operations (7 metadata kinds x ok / failure in translation / failure in the client-side rewrite / failure in metadata x same / other / CMS AOD / CMS miniAOD executor) "
                "up to the MaxLen of %s, enumerated by TLC (%d, exhaustive=%s); each followed by %d probes; non-trivial = the history declares "
                "something (method type, enum, blocks, extended metadata, collection, C++ function); distinct by history" % (cfg, total, exhaustive, len(PROBES)),
        "exhaustive": exhaustive,
        "histories": len(hists),
        "probes": PROBES,
        "shortest_leak_in_as_implemented_model": leak_len,
        "samples": [{"history": r["hist"], "probe": r["probe"], "digest": r["digest"], "outcome": r["outcome"]}
                    for r in (recs[len(recs) // 2], recs[-1])],
    }
    return rep.finish("model_checking", cov, assumptions=[
        "packages are compared after renaming generated identifiers by order of first appearance (harness/normalise.py)",
        "each history runs in a process forked from a parent that imported the library but never translated anything",
    ])


def replay(path):
    r = json.load(open(path))
    recs = replay_histories([[], r["history"]])
    fresh = {x["probe"]: x for x in recs if not x["hist"]}
    bad = [x for x in recs if x["hist"] and x["digest"] != fresh[x["probe"]]["digest"]]
    for x in bad:
        print("probe %s differs after the history" % x["probe"])
    if bad:
        print("VIOLATION property=C07 replay=%s" % path)
        return 1
    print("replay: all probes agree with a fresh process now")
    return 0
