"""Stand-in for python_on_whales used by the C17 check (the property names this as the hook:
the real package is not installed and no docker daemon exists here).  docker.run logs its
arguments, reads what the 'container' would see, and then behaves as the scenario says."""
import os
from pathlib import Path

from . import exceptions  # noqa: F401
from .exceptions import DockerException

# set by the harness before each scenario
SCENARIO = {"container": "ok_result", "chunks": 3}
CALLS = []


class _Docker:
    def run(self, image, command=None, volumes=None, remove=False, stream=False, **kw):
        call = {"image": str(image), "command": [str(c) for c in (command or [])],
                "volumes": [[str(x) for x in v] for v in (volumes or [])],
                "remove": bool(remove), "stream": bool(stream), "extra": sorted(kw)}
        host = {}
        for v in call["volumes"]:
            if len(v) >= 2:
                host[v[1].rstrip("/") or "/"] = v[0]
        scripts = host.get("/scripts")
        call["filelist"] = None
        call["scripts_files"] = []
        if scripts and os.path.isdir(scripts):
            call["scripts_files"] = sorted(os.listdir(scripts))
            fl = os.path.join(scripts, "filelist.txt")
            if os.path.exists(fl):
                call["filelist"] = [ln.rstrip("\n") for ln in open(fl)]
        data = host.get("/data")
        call["data_dir_files"] = sorted(os.listdir(data)) if data and os.path.isdir(data) else None
        CALLS.append(call)
        return self._stream(call, host)

    def _real_runner(self, call, host):
        """The 'container' is the namespace sandbox of the C16 check: the volumes become its /scripts,
        /results and /data, the command is run as given, its output is streamed, its exit status decides."""
        import shutil
        import sandbox
        base = os.path.join(os.environ["VP_SANDBOX_BASE"], "sb%d" % len(CALLS))
        os.makedirs(base)
        root = sandbox.make_root(base, SCENARIO["backend"], host.get("/scripts"), filelist=None)
        if host.get("/data"):
            shutil.copytree(host["/data"], os.path.join(root, "data"), dirs_exist_ok=True)
        cmd = call["command"] or ["/scripts/missing-command"]
        o = sandbox.invoke(root, cmd[1:], "e2e", script=cmd[0])
        call["e2e"] = {"exit": o["exit"], "tools": [c["tool"] for c in o["commands"]]}
        for ln in o["output"].splitlines()[-5:]:
            yield ("stdout", (ln + "\n").encode())
        if o["exit"] != 0:
            raise DockerException(["docker", "run"], o["exit"])
        res = os.path.join(root, "results")
        for f in os.listdir(res):
            shutil.copy(os.path.join(res, f), os.path.join(host["/results"], f))

    def _stream(self, call, host):
        sc = SCENARIO
        kind = sc["container"]
        if kind == "real_runner":
            yield from self._real_runner(call, host)
            return
        n = 0
        for i in range(sc.get("chunks", 3)):
            if kind == "fail_after" and i >= sc.get("fail_at", 0):
                raise DockerException(["docker", "run"], 1)
            yield ("stdout" if i % 2 == 0 else "stderr", ("chunk %d\n" % i).encode())
            n += 1
        if kind == "fail_after":
            raise DockerException(["docker", "run"], 1)
        if kind == "ok_result":
            results = host.get("/results")
            with open(os.path.join(results, "ANALYSIS.root"), "w") as f:
                f.write("result of image=%s inputs=%s\n" % (call["image"], ",".join(call["filelist"] or [])))
        # ok_noresult: exits 0 without leaving a result file


docker = _Docker()
