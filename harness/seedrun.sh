#!/bin/sh
# seedrun.sh <tree with a seeded change> <check id> [tier]: run one check against a scratch tree
# (never /repo), with evidence and replay files going to a scratch directory.
# usage: harness/seedrun.sh /tmp/wt2_C16 C16 quick
tree="$1"; id="$2"; tier="${3:-quick}"
out=$(mktemp -d /tmp/verif.seedout.XXXXXX)
cd "$(dirname "$0")/.." || exit 2
VERIF_REPO="$tree" VERIF_OUT="$out" ./check "$id" --tier "$tier" 2>&1 | grep -v "^Semantic\|^Linting\|^Parsing" | tail -${TAILN:-6} | cut -c1-260
rc=$?
rm -rf "$out"
exit $rc
