// Driver of the model job: books, then processes event sequences, one job
// instance (constructed in pattern-filled storage) per sequence.
//   argv[1] events file   argv[2] sequences file
// Output: one JSON object per line on stdout (see DESIGN.md, Appendix A).
#include "vp_core.h"
#include <fstream>
#include <iostream>

namespace vp {
State &st() { static State s; return s; }
}

static std::vector<vp::Event> load_events(const char *path) {
  std::vector<vp::Event> evs;
  std::ifstream in(path);
  std::string line;
  while (std::getline(in, line)) {
    std::istringstream ls(line);
    std::string tag;
    ls >> tag;
    if (tag == "E") { evs.emplace_back(); continue; }
    if (evs.empty()) continue;
    vp::Event &e = evs.back();
    if (tag == "S") {
      std::string key; int n; ls >> key >> n;
      std::vector<int> ids(n);
      for (int i = 0; i < n; ++i) ls >> ids[i];
      e.store[key] = ids;
    } else if (tag == "N") {
      std::string key; double v; ls >> key >> v;
      vp::AttrVal a; a.tag = 'N'; a.num = v; e.attr[key] = a;
    } else if (tag == "O") {
      std::string key; int r; ls >> key >> r;
      vp::AttrVal a; a.tag = 'O'; a.ref = r; e.attr[key] = a;
    } else if (tag == "V") {
      std::string key; int n; ls >> key >> n;
      vp::AttrVal a; a.tag = 'V'; a.nums.resize(n);
      for (int i = 0; i < n; ++i) ls >> a.nums[i];
      e.attr[key] = a;
    } else if (tag == "W") {
      std::string key; int n; ls >> key >> n;
      vp::AttrVal a; a.tag = 'W'; a.refs.resize(n);
      for (int i = 0; i < n; ++i) ls >> a.refs[i];
      e.attr[key] = a;
    }
  }
  return evs;
}

static std::string requests_json() {
  std::string r = "[";
  bool first = true;
  for (auto &p : vp::st().requests) {
    if (!first) r += ",";
    first = false;
    r += "[" + vp::jstr(p.first) + "," + vp::jstr(p.second) + "]";
  }
  return r + "]";
}

static std::string rows_json() {
  std::string r = "[";
  for (size_t i = 0; i < vp::st().rows.size(); ++i) { if (i) r += ","; r += vp::st().rows[i]; }
  return r + "]";
}

int main(int argc, char **argv) {
  if (argc < 3) { std::cerr << "usage: job events sequences\n"; return 2; }
  std::vector<vp::Event> evs = load_events(argv[1]);
  std::ifstream seqs(argv[2]);
  std::string line;
  int run = 0;
  while (std::getline(seqs, line)) {
    std::istringstream ls(line);
    std::vector<int> seq;
    int x;
    while (ls >> x) seq.push_back(x);
    ++run;
    size_t sz = vp::job_size();
    void *buf = std::malloc(sz);
    std::memset(buf, 0xFF, sz);  // all-ones: NaN for float/double, -1 for int, not a valid bool
    vp::st() = vp::State();
    vp::Job *job = nullptr;
    std::string bookfault = "none";
    try {
      job = vp::make_job(buf, sz);
      job->book();
    } catch (const vp::Fault &f) { bookfault = f.kind; }
    catch (const std::exception &e) { bookfault = std::string("exception:") + e.what(); }
    std::cout << "{\"r\":\"booked\",\"run\":" << run << ",\"fault\":" << vp::jstr(bookfault) << ",\"trees\":[";
    if (job && bookfault == "none") {
      auto ts = job->trees();
      for (size_t i = 0; i < ts.size(); ++i) { if (i) std::cout << ","; std::cout << ts[i]->describe(); }
    }
    std::cout << "],\"extra\":" << (job ? job->extra() : std::string("{}")) << "}" << std::endl;
    if (!job || bookfault != "none") { continue; }
    bool dead = false;
    for (size_t pos = 0; pos < seq.size(); ++pos) {
      if (dead) break;
      int ei = seq[pos];
      vp::st().ev = &evs.at(ei - 1);
      vp::st().requests.clear();
      vp::st().rows.clear();
      vp::st().keep.clear();
      std::string fault = "none";
      try {
        if (!job->process()) fault = "status_failure";
      } catch (const vp::Fault &f) { fault = f.kind; }
      catch (const std::out_of_range &e) { fault = "out_of_range"; }
      catch (const std::exception &e) { fault = std::string("exception:") + e.what(); }
      if (fault != "none") dead = true;  // the real frameworks abort the job
      std::cout << "{\"r\":\"event\",\"run\":" << run << ",\"pos\":" << (pos + 1) << ",\"e\":" << ei
                << ",\"requests\":" << requests_json() << ",\"rows\":" << rows_json()
                << ",\"fault\":" << vp::jstr(fault) << "}" << std::endl;
    }
    // the job object is deliberately leaked: destructors of half-built objects are not our subject
  }
  return 0;
}
