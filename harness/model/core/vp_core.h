// Model experiment framework, core part: events, faults, the recording TTree.
// Everything the emitted code can observe about an event goes through here, and
// everything it does (store requests, branches, fills) is logged as JSON lines.
#pragma once
#include <cmath>
#include <cstdio>
#include <cstdlib>
#include <cstring>
#include <functional>
#include <map>
#include <memory>
#include <sstream>
#include <stdexcept>
#include <string>
#include <typeinfo>
#include <utility>
#include <vector>

namespace vp {

struct Fault : public std::runtime_error {
  std::string kind;
  explicit Fault(const std::string &k) : std::runtime_error("vp fault: " + k), kind(k) {}
};

struct AttrVal {
  char tag = 'N';  // N number, O object, V vector of numbers, W vector of objects
  double num = 0;
  int ref = 0;
  std::vector<double> nums;
  std::vector<int> refs;
};

struct Event {
  std::map<std::string, std::vector<int>> store;  // "<coll>/<bank>" -> ids
  std::map<std::string, AttrVal> attr;            // "<id>.<method>" -> value
};

struct State {
  Event *ev = nullptr;
  std::vector<std::pair<std::string, std::string>> requests;
  std::vector<std::string> rows;
  std::vector<std::string> notes;
  std::vector<std::shared_ptr<void>> keep;  // containers handed out during this event
};
State &st();

inline const AttrVal &attr(int id, const char *m) {
  if (id == 0) throw Fault("null_deref");
  auto it = st().ev->attr.find(std::to_string(id) + "." + m);
  if (it == st().ev->attr.end()) throw Fault(std::string("no_attr:") + std::to_string(id) + "." + m);
  return it->second;
}
// a pointer to an object handed around either by pointer or by value (for user C++ code that
// must work on both kinds of receiver)
template <class T> inline T *p(T *x) { return x; }
template <class T> inline T *p(T &x) { return &x; }
inline double num(int id, const char *m) { return attr(id, m).num; }
inline int ref(int id, const char *m) { return attr(id, m).ref; }

// One stateless object per (class, id); id 0 is the poisoned null object.
template <class T> T *obj(int id) {
  static std::map<int, T> pool;
  T &o = pool[id];
  o._id = id;
  return &o;
}

template <class E> std::vector<E> numvec(int id, const char *m) {
  const AttrVal &a = attr(id, m);
  std::vector<E> r;
  for (double d : a.nums) r.push_back(static_cast<E>(d));
  return r;
}
template <class T> std::vector<const T *> ptrvec(int id, const char *m) {
  const AttrVal &a = attr(id, m);
  std::vector<const T *> r;
  for (int i : a.refs) r.push_back(obj<T>(i));
  return r;
}
template <class T> std::vector<T> valvec(int id, const char *m) {
  const AttrVal &a = attr(id, m);
  std::vector<T> r;
  for (int i : a.refs) r.push_back(*obj<T>(i));
  return r;
}

// ---- type names as the specification spells them
template <class T> struct tname { static std::string get() { return std::string("?") + typeid(T).name(); } };
template <> struct tname<int> { static std::string get() { return "int"; } };
template <> struct tname<float> { static std::string get() { return "float"; } };
template <> struct tname<double> { static std::string get() { return "double"; } };
template <> struct tname<bool> { static std::string get() { return "bool"; } };
template <> struct tname<long> { static std::string get() { return "long"; } };
template <> struct tname<long long> { static std::string get() { return "long long"; } };
template <> struct tname<unsigned int> { static std::string get() { return "unsigned int"; } };
template <> struct tname<std::string> { static std::string get() { return "string"; } };
template <class T> struct tname<std::vector<T>> { static std::string get() { return "vector<" + tname<T>::get() + ">"; } };

// ---- cells: scaled integers, see Values.tla (Scale = 1000)
inline std::string cell(double x) {
  // homogeneous cell records: k = "s" scalar / "v" vector (see Query.tla, CellClose)
  if (std::isnan(x)) return "{\"k\":\"s\",\"s\":0,\"f\":\"nan\",\"v\":[]}";
  if (std::isinf(x)) return "{\"k\":\"s\",\"s\":0,\"f\":\"inf\",\"v\":[]}";
  double s = x * 1000.0;
  if (std::fabs(s) > 2.0e9) return "{\"k\":\"s\",\"s\":0,\"f\":\"big\",\"v\":[]}";
  char buf[96];
  snprintf(buf, sizeof buf, "{\"k\":\"s\",\"s\":%lld,\"f\":\"ok\",\"v\":[]}", (long long)std::llround(s));
  return buf;
}
// C18: with VP_TEXT set, scalar cells also carry the exact text of the value ("r")
inline bool want_text() { static int w = -1; if (w < 0) w = std::getenv("VP_TEXT") ? 1 : 0; return w == 1; }
inline std::string with_text(const std::string &c, const char *fmt, double d, long long i, bool is_int) {
  if (!want_text()) return c;
  char buf[64];
  if (is_int) snprintf(buf, sizeof buf, "%lld", i); else snprintf(buf, sizeof buf, fmt, d);
  return c.substr(0, c.size() - 1) + ",\"r\":\"" + buf + "\"}";
}
inline std::string dump(const int &v) { return with_text(cell(v), "", 0, v, true); }
inline std::string dump(const long &v) { return with_text(cell((double)v), "", 0, v, true); }
inline std::string dump(const long long &v) { return with_text(cell((double)v), "", 0, v, true); }
inline std::string dump(const unsigned int &v) { return with_text(cell(v), "", 0, v, true); }
inline std::string dump(const float &v) { return with_text(cell(v), "%.9g", v, 0, false); }
inline std::string dump(const double &v) { return with_text(cell(v), "%.17g", v, 0, false); }
inline std::string dump(const bool &v) {
  // a bool read from pattern-filled storage may hold any byte
  unsigned char raw;
  std::memcpy(&raw, &v, 1);
  return with_text(cell(raw <= 1 ? raw : 170), "", 0, raw <= 1 ? raw : 170, true);
}
inline std::string jstr(const std::string &s) {
  std::string r = "\"";
  for (unsigned char c : s) {
    char b[8];
    if (c == '"' || c == '\\') { r += '\\'; r += (char)c; }
    else if (c < 0x20 || c == 0x7f) { snprintf(b, sizeof b, "\\u%04x", c); r += b; }
    else r += (char)c;   // UTF-8 bytes pass through unchanged
  }
  return r + "\"";
}
inline std::string dump(const std::string &v) { return "{\"k\":\"str\",\"s\":0,\"f\":" + jstr(v) + ",\"v\":[]}"; }
template <class T> std::string dump(const std::vector<T> &v) {
  std::string r = "{\"k\":\"v\",\"s\":0,\"f\":\"\",\"v\":[";
  bool first = true;
  for (const auto &x : v) { if (!first) r += ","; first = false; T tmp = x; r += dump(tmp); }
  return r + "]}";
}

enum Code : int {};   // a declared scalar type whose tree type is int (C10)
}  // namespace vp

// ---- the recording tree (ROOT's TTree as far as emitted code uses it)
class TTree {
 public:
  struct BranchRec {
    std::string name, type;
    const void *addr;
    std::function<std::string()> dump;
  };
  TTree() {}
  TTree(const std::string &n, const std::string &t) : m_name(n), m_title(t) {}
  template <class T> int Branch(const std::string &name, T *addr) {
    BranchRec b;
    b.name = name;
    b.type = vp::tname<T>::get();
    b.addr = addr;
    b.dump = [addr]() { return vp::dump(*addr); };
    m_branches.push_back(b);
    return 0;
  }
  int Fill() {
    std::string r = "[";
    for (size_t i = 0; i < m_branches.size(); ++i) { if (i) r += ","; r += m_branches[i].dump(); }
    r += "]";
    vp::st().rows.push_back(r);
    return 1;
  }
  const std::string &name() const { return m_name; }
  const std::vector<BranchRec> &branches() const { return m_branches; }
  std::string describe() const {
    std::string r = "{\"tree\":" + vp::jstr(m_name) + ",\"branches\":[";
    for (size_t i = 0; i < m_branches.size(); ++i) {
      if (i) r += ",";
      // address identity: index of the first branch bound to the same storage
      size_t first = i;
      for (size_t j = 0; j < i; ++j) if (m_branches[j].addr == m_branches[i].addr) { first = j; break; }
      r += "{\"name\":" + vp::jstr(m_branches[i].name) + ",\"type\":" + vp::jstr(m_branches[i].type) +
           ",\"slot\":" + std::to_string(first + 1) + "}";
    }
    return r + "]}";
  }
 private:
  std::string m_name, m_title;
  std::vector<BranchRec> m_branches;
};

namespace vp {
// what the driver needs from a backend adapter
struct Job {
  virtual ~Job() {}
  virtual void book() = 0;                 // may throw
  virtual bool process() = 0;              // false = framework-level failure status; may throw
  virtual std::vector<TTree *> trees() = 0;
  virtual std::string extra() { return "{}"; }
};
Job *make_job(void *storage, size_t size);
size_t job_size();
}  // namespace vp
