#pragma once
#include <algorithm>
#include <numeric>
#include <iostream>
#include "vp_core.h"
