// Model of the CMSSW framework pieces the r5 / r7 Analyzer.cc templates use.
#pragma once
#include "vp_core.h"

namespace vp {
struct CmsState {
  std::vector<std::unique_ptr<TTree>> trees;
  std::vector<std::pair<std::string, std::string>> consumes;
};
inline CmsState &cms() { static CmsState s; return s; }
}  // namespace vp

class TFileService {
 public:
  template <class T> T *make(const std::string &name, const std::string &title) {
    vp::cms().trees.push_back(std::unique_ptr<TTree>(new T(name, title)));
    return vp::cms().trees.back().get();
  }
};

namespace edm {
class ParameterSet {};
class ParameterSetDescription { public: void setUnknown() {} };
class ConfigurationDescriptions { public: void addDefault(const ParameterSetDescription &) {} };
class Run {};
class LuminosityBlock {};
class EventSetup {};

class InputTag {
 public:
  InputTag() {}
  explicit InputTag(const std::string &l) : m_label(l) {}
  explicit InputTag(const char *l) : m_label(l) {}
  const std::string &label() const { return m_label; }
 private:
  std::string m_label;
};

template <class T> class EDGetTokenT {
 public:
  EDGetTokenT() : m_init(false) {}
  explicit EDGetTokenT(const std::string &tag) : m_tag(tag), m_init(true) {}
  bool isUninitialized() const { return !m_init; }
  const std::string &vp_tag() const { return m_tag; }
 private:
  std::string m_tag;
  bool m_init;
};

template <class T> class Handle {
 public:
  Handle() {}
  bool isValid() const { return m_p != nullptr; }
  bool failedToGet() const { return m_p == nullptr; }
  const T &operator*() const { check(); return *m_p; }
  const T *operator->() const { check(); return m_p; }
  const T *product() const { check(); return m_p; }
  void vp_set(const T *p) { m_p = p; }
 private:
  void check() const { if (!m_p) throw vp::Fault("retrieve_failed"); }
  const T *m_p = nullptr;
};

template <class T> class Service {
 public:
  T *operator->() { static T t; return &t; }
};

class Event {
 public:
  template <class T> bool getByLabel(const std::string &label, Handle<T> &h) const { return fetch(label, h); }
  template <class T> bool getByLabel(const InputTag &tag, Handle<T> &h) const { return fetch(tag.label(), h); }
  template <class T> bool getByToken(const EDGetTokenT<T> &tok, Handle<T> &h) const {
    if (tok.isUninitialized()) throw vp::Fault("uninitialised_token");
    return fetch(tok.vp_tag(), h);
  }
 private:
  template <class T> bool fetch(const std::string &label, Handle<T> &h) const {
    vp::st().requests.push_back(std::make_pair(std::string(T::vp_ctype()), label));
    auto it = vp::st().ev->store.find(std::string(T::vp_coll()) + "/" + label);
    if (it == vp::st().ev->store.end()) { h.vp_set(nullptr); return false; }
    h.vp_set(T::vp_fetch(it->second));
    return true;
  }
};

class vpAnalyzerBase {
 public:
  virtual ~vpAnalyzerBase() {}
  virtual void beginJob() {}
  virtual void analyze(const Event &, const EventSetup &) = 0;
  virtual void endJob() {}
 protected:
  template <class T> EDGetTokenT<T> consumes(const InputTag &tag) {
    vp::cms().consumes.push_back(std::make_pair(std::string(T::vp_ctype()), tag.label()));
    return EDGetTokenT<T>(tag.label());
  }
};
class EDAnalyzer : public vpAnalyzerBase {};
namespace one {
struct SharedResources {};
template <class... A> class EDAnalyzer : public vpAnalyzerBase {};
}  // namespace one
}  // namespace edm

#define DEFINE_FWK_MODULE(T)                                                                  \
  namespace vp {                                                                              \
  class CmsJob : public Job {                                                                 \
   public:                                                                                    \
    explicit CmsJob(void *storage) {                                                          \
      cms().trees.clear();                                                                    \
      cms().consumes.clear();                                                                 \
      edm::ParameterSet ps;                                                                   \
      m_a = new (storage) T(ps);                                                              \
    }                                                                                         \
    void book() override { static_cast<edm::vpAnalyzerBase *>(m_a)->beginJob(); }             \
    bool process() override {                                                                 \
      edm::Event ev;                                                                          \
      edm::EventSetup es;                                                                     \
      static_cast<edm::vpAnalyzerBase *>(m_a)->analyze(ev, es);                               \
      return true;                                                                            \
    }                                                                                         \
    std::vector<TTree *> trees() override {                                                   \
      std::vector<TTree *> r;                                                                 \
      for (auto &t : cms().trees) r.push_back(t.get());                                       \
      return r;                                                                               \
    }                                                                                         \
    std::string extra() override {                                                            \
      std::string r = "{\"consumes\":[";                                                      \
      for (size_t i = 0; i < cms().consumes.size(); ++i) {                                    \
        if (i) r += ",";                                                                      \
        r += "[" + jstr(cms().consumes[i].first) + "," + jstr(cms().consumes[i].second) + "]"; \
      }                                                                                       \
      return r + "]}";                                                                        \
    }                                                                                         \
   private:                                                                                   \
    T *m_a;                                                                                   \
  };                                                                                          \
  Job *make_job(void *storage, size_t) { return new CmsJob(storage); }                        \
  size_t job_size() { return sizeof(T); }                                                     \
  }
