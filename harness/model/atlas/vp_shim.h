// Appended to the rendered query.cxx: adapter between the emitted algorithm and the driver.
#pragma once
namespace vp {
class AtlasJob : public Job {
 public:
  explicit AtlasJob(void *storage) { m_q = new (storage) query("vp", nullptr); }
  void book() override { if (!m_q->initialize().isSuccess()) throw Fault("initialize_failed"); }
  bool process() override { return m_q->execute().isSuccess(); }
  std::vector<TTree *> trees() override { return m_q->vp_trees(); }
 private:
  query *m_q;
};
Job *make_job(void *storage, size_t) { return new AtlasJob(storage); }
size_t job_size() { return sizeof(query); }
}  // namespace vp
