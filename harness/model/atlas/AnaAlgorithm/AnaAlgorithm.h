// Model of ATLAS EventLoop's AnaAlgorithm as far as the r21 templates use it.
#pragma once
#include "vp_core.h"

class ISvcLocator;

class StatusCode {
 public:
  enum Code { FAILURE = 0, SUCCESS = 1 };
  StatusCode(Code c = SUCCESS) : m_c(c) {}
  bool isSuccess() const { return m_c == SUCCESS; }
  bool isFailure() const { return m_c != SUCCESS; }
  void ignore() const {}
 private:
  Code m_c;
};

#define ANA_CHECK(EXP)                                 \
  do {                                                 \
    StatusCode vp_sc__ = (EXP);                        \
    if (!vp_sc__.isSuccess()) {                        \
      vp::st().notes.push_back("ANA_CHECK failed: " #EXP); \
      return vp_sc__;                                  \
    }                                                  \
  } while (0)

namespace vp {
class Store {
 public:
  // status-checked retrieval: the pointer is set only on success
  template <class T> StatusCode retrieve(const T *&out, const std::string &key) {
    st().requests.push_back(std::make_pair(std::string(T::vp_ctype()), key));
    auto it = st().ev->store.find(std::string(T::vp_coll()) + "/" + key);
    if (it == st().ev->store.end()) return StatusCode::FAILURE;
    const T *c = T::vp_fetch(it->second);
    if (!c) return StatusCode::FAILURE;
    out = c;
    return StatusCode::SUCCESS;
  }
};
}  // namespace vp

namespace EL {
class AnaAlgorithm {
 public:
  AnaAlgorithm(const std::string &name, ISvcLocator *) : m_name(name) {}
  virtual ~AnaAlgorithm() {}
  virtual StatusCode initialize() { return StatusCode::SUCCESS; }
  virtual StatusCode execute() { return StatusCode::SUCCESS; }
  virtual StatusCode finalize() { return StatusCode::SUCCESS; }
  vp::Store *evtStore() { return &m_store; }
  StatusCode book(const TTree &t) {
    m_trees.push_back(std::unique_ptr<TTree>(new TTree(t)));
    return StatusCode::SUCCESS;
  }
  TTree *tree(const std::string &name) {
    for (auto &t : m_trees) if (t->name() == name) return t.get();
    throw vp::Fault("unknown_tree:" + name);
  }
  std::vector<TTree *> vp_trees() { std::vector<TTree *> r; for (auto &t : m_trees) r.push_back(t.get()); return r; }
 private:
  std::string m_name;
  vp::Store m_store;
  std::vector<std::unique_ptr<TTree>> m_trees;
};
}  // namespace EL
