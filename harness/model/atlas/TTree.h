#pragma once
#include "vp_core.h"
