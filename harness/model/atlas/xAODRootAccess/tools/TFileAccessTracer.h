#pragma once
namespace xAOD { class TFileAccessTracer { public: static void enableDataSubmission(bool) {} }; }
