"""Term (as exported by spec/QueryGen.tla) -> Python source of the func_adl query.
A 1:1 syntactic rendering: one format string per node kind, nothing is interpreted."""
import json


class Style:
    def __init__(self, method_style=True, md_position="inner", rename=None):
        self.method_style = method_style
        self.md_position = md_position
        self.rename = rename or {}


def _num(t):
    k, n, d = t["a"], t["n"], t["d"]
    if k == "bool":
        return "True" if n else "False"
    if k == "int":
        return str(n)
    return repr(n / d)


# ATLAS jet moments (Universe.tla, mode "moment"): how the query spells the access
MOMENTS = {"momf": "getAttributeFloat", "momv": "getAttributeVectorFloat"}


def render(t, uni, backend, style=None, md=None):
    """md: list of metadata dicts to attach to the dataset (None = the universe's declarations)."""
    style = style or Style()
    b = uni["backends"][backend]
    if md is None:
        md = [{k: v for k, v in m.items() if v != ""} for m in uni["md"][backend]]

    def nm(x):
        return style.rename.get(x, x)

    def seqop(name, src, args):
        if style.method_style:
            return "%s.%s(%s)" % (src, name, ", ".join(args))
        return "%s(%s)" % (name, ", ".join([src] + args))

    has_meta = _has_kind(t, "Meta")

    def r(t):
        k = t["k"]
        ch = t["ch"]
        if k == "Meta":
            s = r(ch[0])
            for m in reversed(md):
                s = "MetaData(%s, %r)" % (s, m)
            return s
        if k == "DS" and has_meta:
            return 'EventDataset("vp")'
        if k == "DS":
            s = 'EventDataset("vp")'
            for m in reversed(md):
                s = "MetaData(%s, %r)" % (s, m)
            return s
        if k in ("Select", "SelectMany", "Where"):
            return seqop(k, r(ch[0]), ["lambda %s: %s" % (nm(t["a"]), r(ch[1]))])
        if k in ("First", "Count", "Sum", "Min", "Max"):
            return seqop(k, r(ch[0]), [])
        if k == "Aggregate":
            return seqop(k, r(ch[0]), [r(ch[1]), "lambda %s, %s: %s" % (nm(t["a"]), nm(t["b"]), r(ch[2]))])
        if k in ("Coll", "Single"):
            name = b["colls"][t["a"]]["py"]
            if not name:
                raise ValueError("backend %s has no collection %s" % (backend, t["a"]))
            return "%s.%s(%r)" % (r(ch[0]), name, t["b"])
        if k == "CollBad":
            c = ch[0]
            name = b["colls"][c["a"]]["py"]
            if not name:
                raise ValueError("backend %s has no collection %s" % (backend, c["a"]))
            args = {"no_bank": "", "two_banks": "%r, %r" % (c["b"], c["b"]), "int_bank": "1"}[t["a"]]
            return "%s.%s(%s)" % (r(c["ch"][0]), name, args)
        if k == "Meth" and t["a"] in MOMENTS:
            return "%s.%s(%r)" % (r(ch[0]), MOMENTS[t["a"]], t["a"])
        if k == "Meth":
            return "%s.%s(%s)" % (r(ch[0]), t["a"], ", ".join(r(c) for c in ch[1:]))
        if k == "NonNull":
            return "isNonnull(%s)" % r(ch[0])
        if k == "Let":
            return "(lambda %s: %s)(%s)" % (nm(t["a"]), r(ch[1]), r(ch[0]))
        if k == "Range":
            return "Range(%s, %s)" % (r(ch[0]), r(ch[1]))
        if k == "Idx":
            return "%s[%s]" % (r(ch[0]), r(ch[1]))
        if k in ("Bin", "Cmp"):
            return "(%s %s %s)" % (r(ch[0]), t["a"], r(ch[1]))
        if k == "Un":
            return "(%s %s)" % (t["a"], r(ch[0])) if t["a"] == "not" else "(%s%s)" % (t["a"], r(ch[0]))
        if k in ("And", "Or"):
            return "(" + (" %s " % k.lower()).join(r(c) for c in ch) + ")"
        if k == "If":
            return "(%s if %s else %s)" % (r(ch[1]), r(ch[0]), r(ch[2]))
        if k == "Const":
            return _num(t)
        if k == "Str":
            return repr(t["a"])
        if k == "Lit":
            return "1e400" if t["b"] == "inf" else t["b"]
        if k == "Var":
            return nm(t["a"])
        if k == "Tuple":
            return "(" + ", ".join(r(c) for c in ch) + ("," if len(ch) == 1 else "") + ")"
        if k == "List":
            return "[" + ", ".join(r(c) for c in ch) + "]"
        if k == "Dict":
            return "{" + ", ".join("%s: %s" % (r(ch[2 * i]), r(ch[2 * i + 1])) for i in range(t["n"])) + "}"
        if k == "TupIdx":
            return "%s[%d]" % (r(ch[0]), t["n"])
        if k == "DictGet":
            return "%s[%r]" % (r(ch[0]), t["a"])
        if k == "UserFn" and t["d"] == 2:
            # the other call style with the right number of arguments (Grafts.tla, userfn_wrong_style)
            if t["b"] == "method":      # declared as a function: called on its first argument
                return "(%s).%s(%s)" % (r(ch[0]), t["a"], ", ".join(r(c) for c in ch))
            return "%s(%s)" % (t["a"], ", ".join(r(c) for c in ch[1:]))     # declared as a method: the receiver is gone
        if k == "UserFn" and t["b"] == "method":
            return "%s.%s(%s)" % (r(ch[0]), t["a"], ", ".join(r(c) for c in ch[1:]))
        if k in ("Math", "UserFn"):
            return "%s(%s)" % (t["a"], ", ".join(r(c) for c in ch))
        if k == "Root":
            names = [c["a"] for c in ch[1:]]
            return "ResultTTree(%s, %r, %r, %r)" % (r(ch[0]), names if len(names) != 1 or t["d"] != 0 else names[0], t["a"], t["b"])
        if k == "EnumCmp":
            return "(%s.color() == %s.Color.%s)" % (r(ch[0]), uni["dotns"][backend], t["a"])
        if k == "EnumArg":
            return "%s.colorIs(%s.Color.%s)" % (r(ch[0]), uni["dotns"][backend], t["a"])
        if k == "CmpChain":
            return "(%s < %s < %s)" % (r(ch[0]), r(ch[1]), r(ch[2]))
        if k == "AggOnly":
            return seqop("Aggregate", r(ch[0]), ["lambda a, v: (a + v)"])
        if k == "AggFunc":
            return seqop("Aggregate", r(ch[0]), ["lambda v: v", "lambda a, v: (a + v)"])
        if k == "DeltaRN":
            if t["a"] == "method":
                return "(%s).DeltaR(%s)" % (r(ch[0]), ", ".join(["1.0"] * t["n"]))
            return "DeltaR(%s)" % ", ".join([r(ch[0])] + ["1.0"] * (t["n"] - 1))
        if k == "CountExtra":
            return seqop("Count", r(ch[0]), ["1"])
        if k == "FirstPred":
            return seqop("First", r(ch[0]), ["lambda x: True"])
        if k == "Slice":
            return "%s[0:1]" % r(ch[0])
        if k == "GetAttr":
            return "%s.getAttribute(%r)" % (r(ch[0]), t["a"])
        if k == "BadMeta":
            s = r(ch[0])
            mds = bad_metadata(t["a"].split("@")[0], backend, b)
            for m in (mds if isinstance(mds, list) else [mds]):
                s = "MetaData(%s, %r)" % (s, m)
            return s
        if k == "Raw":
            return t["a"]
        raise ValueError("cannot render node kind %r" % k)

    return r(t)


_COLL_MD = {"atlas": "add_atlas_event_collection_info", "cms_aod": "add_cms_aod_event_collection_info",
            "cms_miniaod": "add_cms_miniaod_event_collection_info"}


def bad_metadata(which, backend, b):
    """The malformed / unknown / foreign declarations named by spec/Grafts.tla (inputs, written out)."""
    cls = b["classes"]["A"]
    good_coll = {"metadata_type": _COLL_MD[backend], "name": "VpColl", "include_files": ["vp.h"],
                 "container_type": "vp::Container", "element_type": "vp::Element", "contains_collection": True}
    if which == "unknown_type":
        return {"metadata_type": "vp_no_such_metadata_type"}
    if which == "no_type":
        return {"name": "vp"}
    if which == "method_missing_keys":
        return {"metadata_type": "add_method_type_info", "type_string": cls}
    if which == "inject_unknown_field":
        return {"metadata_type": "inject_code", "name": "vp_block", "no_such_field": ["x"]}
    if which == "function_missing_keys":
        return {"metadata_type": "add_cpp_function", "name": "vp_f"}
    if which == "collection_other_backend":
        other = "cms_aod" if backend == "atlas" else "atlas"
        d = dict(good_coll)
        d["metadata_type"] = _COLL_MD[other]
        return d
    if which == "collection_extra_key":
        d = dict(good_coll)
        d["vp_extra_key"] = 1
        return d
    if which == "collection_foreign_key":
        d = dict(good_coll)
        if backend == "atlas":
            d["element_pointer"] = False
        else:
            d["link_libraries"] = ["vpForeignLib"]
        return d
    if which == "collection_spurious_element":
        # a singleton (contains_collection false) that names an element type
        d = dict(good_coll)
        d["contains_collection"] = False
        return d
    if which == "collection_missing_element":
        d = dict(good_coll)
        del d["element_type"]
        return d
    if which == "inject_conflict":
        return [{"metadata_type": "inject_code", "name": "vp_block", "ctor_lines": ["vp_one();"]},
                {"metadata_type": "inject_code", "name": "vp_block", "ctor_lines": ["vp_two();"]}]
    if which == "jobscript_conflict":
        return [{"metadata_type": "add_job_script", "name": "vp_script", "script": ["vp_one()"]},
                {"metadata_type": "add_job_script", "name": "vp_script", "script": ["vp_two()"]}]
    raise ValueError("unknown bad metadata variant " + which)


def _has_kind(t, kind):
    return t["k"] == kind or any(_has_kind(c, kind) for c in t["ch"])


def compact(t):
    "A short one-line form of a term for keys and messages (not parsed by anything)."
    k, ch = t["k"], t["ch"]
    inner = ",".join(compact(c) for c in ch)
    tag = k
    if k in ("Meth", "Coll", "Single", "Bin", "Cmp", "Un", "Math", "Var", "Str", "UserFn"):
        tag += ":" + t["a"] + (("/" + t["b"]) if k in ("Coll", "Single") else "")
    if k == "Const":
        tag += ":%s:%d/%d" % (t["a"], t["n"], t["d"])
    if k == "TupIdx":
        tag += ":%d" % t["n"]
    return tag + ("(" + inner + ")" if ch else "")
