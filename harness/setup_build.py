"""setup_cmd: SANY-check every specification, probe the sandbox primitives, build the mock libraries."""
import glob
import os
import subprocess
import sys

sys.path.insert(0, os.path.dirname(os.path.abspath(__file__)))
import common  # noqa: E402


def main():
    bad = 0
    for f in sorted(glob.glob(os.path.join(common.SPEC, "*.tla"))):
        p = subprocess.run(["java", "-cp", "/opt/veriftools/tla/tla2tools.jar:/opt/veriftools/tla/CommunityModules-deps.jar",
                            "tla2sany.SANY", os.path.basename(f)], cwd=common.SPEC,
                           stdout=subprocess.PIPE, stderr=subprocess.STDOUT, text=True)
        if p.returncode != 0 or "*** Errors" in p.stdout or "Fatal errors" in p.stdout:
            print("SANY failed on", f)
            print(p.stdout[-2000:])
            bad += 1
    try:
        import mockbuild
        mockbuild.build_all()
    except ImportError:
        pass
    print("setup: %s" % ("FAILED" if bad else "ok"))
    return 1 if bad else 0


if __name__ == "__main__":
    sys.exit(main())
