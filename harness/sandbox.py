"""Runs the real, rendered runner.sh unmodified inside a private user + mount namespace with a
synthetic root (so /scripts, /results, /data, /home/atlas, /opt/cms ... exist exactly as the
script expects) and stub tools on PATH (harness/stubs)."""
import hashlib
import json
import os
import shutil
import subprocess

import common

STUBS = os.path.join(common.ROOT, "harness", "stubs")
SYS_DIRS = ("usr", "bin", "lib", "lib64", "etc", "dev")

_ENTER = """#!/bin/sh
R=$1; shift
for d in %s; do mount --rbind /$d $R/$d || exit 97; done
exec chroot $R "$@"
""" % " ".join(SYS_DIRS)


def available():
    d = common.scratch("verif.sbprobe.")
    root = make_root(d, "atlas", None)
    r = enter(root, ["/bin/bash", "-c", "echo vp-ok"])
    return r.returncode == 0 and "vp-ok" in r.stdout


def make_root(base, backend, package_dir, filelist=("/data/default1.root", "/data/default2.root")):
    """Synthetic root for one backend; package_dir = rendered package to mount as /scripts."""
    root = os.path.join(base, "root")
    for d in SYS_DIRS + ("work", "results", "data", "vp", "out2", "tmp"):
        os.makedirs(os.path.join(root, d), exist_ok=True)
    shutil.copytree(STUBS, os.path.join(root, "stubs"), dirs_exist_ok=True)
    if package_dir:
        shutil.copytree(package_dir, os.path.join(root, "scripts"), dirs_exist_ok=True)
        if filelist is not None:
            with open(os.path.join(root, "scripts", "filelist.txt"), "w") as f:
                f.write("".join(x + "\n" for x in filelist))
    else:
        os.makedirs(os.path.join(root, "scripts"), exist_ok=True)
    if backend == "atlas":
        os.makedirs(os.path.join(root, "home", "atlas"), exist_ok=True)
        shutil.copy(os.path.join(STUBS, "release_setup.sh"), os.path.join(root, "home", "atlas", "release_setup.sh"))
        os.makedirs(os.path.join(root, "xaod_calibration_cache"), exist_ok=True)
    else:
        os.makedirs(os.path.join(root, "opt", "cms"), exist_ok=True)
        shutil.copy(os.path.join(STUBS, "entrypoint.sh"), os.path.join(root, "opt", "cms", "entrypoint.sh"))
    enter_sh = os.path.join(base, "enter.sh")
    with open(enter_sh, "w") as f:
        f.write(_ENTER)
    os.chmod(enter_sh, 0o755)
    return root


def enter(root, argv, env=None, timeout=60):
    base = os.path.dirname(root)
    e = {"PATH": "/stubs:/usr/bin:/bin", "HOME": "/tmp", "LANG": "C"}
    if env:
        e.update(env)
    cmd = ["unshare", "--mount", "--map-root-user", os.path.join(base, "enter.sh"), root, "/usr/bin/env", "-i"] + \
          ["%s=%s" % kv for kv in e.items()] + argv
    return subprocess.run(cmd, stdout=subprocess.PIPE, stderr=subprocess.STDOUT, text=True, errors="replace", timeout=timeout)


DESTS = ("/results/ANALYSIS.root", "/out2/ANALYSIS.root", "/out2/custom.root", "/work/ANALYSIS.root")


def _read_dests(root):
    out = {}
    for d in DESTS:
        p = os.path.join(root, d.lstrip("/"))
        if os.path.isfile(p):
            txt = open(p, errors="replace").read().split("\n")
            run = ""
            inputs = []
            conv = False
            mode = None
            for ln in txt:
                if ln.startswith("run="):
                    run = ln[4:]
                elif ln == "inputs:":
                    mode = "in"
                elif ln.startswith("converted="):
                    conv = True
                    mode = None
                elif mode == "in" and ln.strip():
                    inputs.append(ln.strip())
            st = os.stat(p)
            # the file's identity: a rewritten, truncated, touched or replaced file differs from the one that was there before
            ident = "%d:%d:%s" % (st.st_mtime_ns, st.st_size, hashlib.sha1(open(p, "rb").read()).hexdigest()[:12])
            out[d] = {"run": run, "inputs": inputs, "converted": conv, "ident": ident}
    return out


def invoke(root, argv, run_id, fault_at=0, cwd="/work", script="/scripts/runner.sh", late=False):
    """One invocation of /scripts/runner.sh (or `script`) with the given arguments.  Returns what was observed."""
    vp = os.path.join(root, "vp")
    for f in ("counter", "commands"):
        try:
            os.unlink(os.path.join(vp, f))
        except OSError:
            pass
    r = enter(root, ["/bin/bash", "-c", "cd %s && exec %s %s" % (cwd, script, " ".join(argv))],
              env={"VP_FAULT_AT": str(fault_at), "VP_RUN_ID": run_id, "VP_FAULT_LATE": "1" if late else "0"})
    cmds = []
    cf = os.path.join(vp, "commands")
    if os.path.exists(cf):
        for ln in open(cf, errors="replace"):
            parts = ln.split()
            if len(parts) >= 3:
                cmds.append({"n": int(parts[0]), "cls": parts[1], "tool": parts[2], "args": parts[3:]})
    return {"exit": r.returncode, "commands": cmds, "dests": _read_dests(root), "output": r.stdout[-2000:]}
