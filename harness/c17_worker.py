"""Runs ONE LocalRun scenario in a fresh interpreter and prints the observation as JSON."""
import asyncio
import json
import os
import sys
from pathlib import Path

HERE = os.path.dirname(os.path.abspath(__file__))


def main():
    sc = json.loads(sys.argv[1])
    base = sys.argv[2]
    repo = os.environ.get("VERIF_REPO", "/repo")
    sys.path.insert(0, HERE)
    sys.path.insert(0, os.path.join(HERE, "fake_pkgs"))
    sys.path.insert(0, repo)
    tmpd = os.path.join(base, "tmp")
    os.makedirs(tmpd)
    os.environ["TMPDIR"] = tmpd
    d1 = os.path.join(base, "data1")
    d2 = os.path.join(base, "data2")
    out = os.path.join(base, "out")
    for d in (d1, d2, out):
        os.makedirs(d)
    names = ["f1.root", "f2.root", "f3.root"]
    cfg = sc["files"]
    order = {"one": [0], "two_same_dir": [0, 1], "three_same_dir": [0, 1, 2], "two_dirs": [0, 1], "nested_dir": [0, 1], "nested_rev": [0, 1],
             "one_missing": [0, 1], "none": [], "repeat_aba": [0, 1, 0], "repeat_aa": [0, 0]}[cfg]
    n = len(order)
    sub = os.path.join(d1, "sub")
    os.makedirs(sub)
    files = []
    for i in order:
        d = d2 if (cfg == "two_dirs" and i == 1) else d1
        if (cfg == "nested_dir" and i == 1) or (cfg == "nested_rev" and i == 0):
            d = sub
        p = os.path.join(d, names[i])
        if not (cfg == "one_missing" and i == 1):
            open(p, "w").write("data %d\n" % i)
        files.append(Path(p))
    rec = {"sc": sc, "raised": False, "exc": "", "msg": "", "calls": [], "returned": False, "returned_in_outdir": False,
           "result_is_containers": False, "tmp_left": [], "pkg_dir_is_tmp": False, "stage": "construct", "e2e_inputs": ["<none>"]}
    import python_on_whales
    kind = sc["container"]
    main_scenario = {"container": "fail_after" if kind.startswith("fail_at_") else kind, "chunks": 3,
                     "fail_at": int(kind[-1]) if kind.startswith("fail_at_") else 0, "backend": sc["backend"]}
    os.environ["VP_SANDBOX_BASE"] = os.path.join(base, "sandbox")
    os.makedirs(os.environ["VP_SANDBOX_BASE"])
    python_on_whales.SCENARIO = main_scenario
    returned_path = None
    prior_path = None
    try:
        if sc["backend"] == "atlas":
            from func_adl_xAOD.atlas.xaod.local_dataset import xAODDataset as DS
            coll = "Jets"
        elif sc["backend"] == "cms_aod":
            from func_adl_xAOD.cms.aod.local_dataset import CMSRun1AODDataset as DS
            coll = "Muons"
        else:
            from func_adl_xAOD.cms.miniaod.local_dataset import CMSRun2miniAODDataset as DS
            coll = "Muons"
        kw = {"docker_image": "vp/dataset-image", "docker_tag": "tag1"}
        if sc["outdir"] == "given":
            kw["output_directory"] = Path(out)
        ds = DS(files if n != 1 else files[0], **kw)
        rec["stage"] = "prior"
        prior_path = None
        if sc.get("prior", "none") not in ("none", "same_query"):
            # an earlier query on the same dataset object, with its own docker image
            python_on_whales.SCENARIO = {"container": "ok_result", "chunks": 3, "fail_at": 0}
            st0 = ds.MetaData({"metadata_type": "docker", "image": "vp/earlier:9"})
            body0 = "j.pt()" if sc["prior"] == "md_ok" else "(1 < j.pt() < 2)"
            st0 = st0.Select("lambda e: e.%s('bk').Select(lambda j: %s)" % (coll, body0))
            try:
                res0 = asyncio.run(ds.execute_result_async(st0.query_ast, "vp"))
                prior_path = Path(res0[0]) if isinstance(res0, (list, tuple)) and res0 else None
            except Exception:  # noqa
                pass
            del python_on_whales.CALLS[:]
            python_on_whales.SCENARIO = main_scenario
        rec["stage"] = "execute"
        stream = ds
        docker_md = {"metadata_type": "docker", "image": "vp/from-metadata:1"}
        decl_md = {"metadata_type": "add_method_type_info", "type_string": "vp::Thing", "method_name": "size", "return_type": "int"}
        script_md = {"metadata_type": "add_job_script", "name": "vp_script", "script": ["# vp"]}
        for m in {"absent": [], "present": [docker_md], "present_decl": [docker_md, decl_md], "decl_present": [decl_md, docker_md],
                  "present_script": [docker_md, script_md, decl_md]}[sc["md"]]:
            stream = stream.MetaData(m)
        body = "j.pt()" if sc["translation"] == "ok" else "(1 < j.pt() < 2)"
        stream = stream.Select("lambda e: e.%s('bk').Select(lambda j: %s)" % (coll, body))
        if sc.get("prior") == "same_query":
            # the same query object, executed once before with a container that works
            python_on_whales.SCENARIO = {"container": "ok_result", "chunks": 3, "fail_at": 0, "backend": sc["backend"]}
            try:
                res0 = asyncio.run(ds.execute_result_async(stream.query_ast, "vp"))
                prior_path = Path(res0[0]) if isinstance(res0, (list, tuple)) and res0 else None
            except Exception:  # noqa
                pass
            del python_on_whales.CALLS[:]
            python_on_whales.SCENARIO = main_scenario
        res = asyncio.run(ds.execute_result_async(stream.query_ast, "vp"))
        rec["returned"] = True
        returned_path = Path(res[0]) if isinstance(res, (list, tuple)) and res else None
        if returned_path is not None and returned_path.exists():
            expect_dir = out if sc["outdir"] == "given" else tmpd
            rec["returned_in_outdir"] = os.path.realpath(str(returned_path.parent)) == os.path.realpath(expect_dir)
            txt = returned_path.read_text()
            if kind == "real_runner":
                # written by the stand-in job inside the sandbox: "run=<id>", "inputs:", one line per input it was given
                lines = txt.split("\n")
                inputs = [ln.strip() for ln in lines[lines.index("inputs:") + 1:] if ln.strip() and not ln.startswith("converted=")] if "inputs:" in lines else None
                c0 = python_on_whales.CALLS[0] if len(python_on_whales.CALLS) == 1 else None
                rec["result_is_containers"] = bool(
                    c0 and inputs is not None
                    and all(i.startswith("/data/") and i[6:] in (c0["data_dir_files"] or []) for i in inputs))
                rec["e2e_inputs"] = inputs if inputs is not None else ["<no inputs section>"]
            else:
                rec["result_is_containers"] = txt.startswith("result of image=") and len(python_on_whales.CALLS) == 1 and \
                    txt == "result of image=%s inputs=%s\n" % (python_on_whales.CALLS[0]["image"], ",".join(python_on_whales.CALLS[0]["filelist"] or []))
    except BaseException as e:  # noqa
        rec["raised"] = True
        rec["exc"] = type(e).__name__
        rec["msg"] = str(e)[:300]
    for c in python_on_whales.CALLS:
        mounts = []
        for v in c["volumes"]:
            mounts.append({"host": v[0], "point": v[1].rstrip("/") if len(v[1]) > 1 else v[1], "mode": v[2] if len(v) > 2 else "rw"})
        hosts = {m["point"]: m["host"] for m in mounts}
        rec["calls"].append({"image": c["image"], "command": c["command"], "mounts": mounts, "remove": c["remove"], "stream": c["stream"],
                             "filelist": c["filelist"] if c["filelist"] is not None else ["<no filelist.txt in /scripts>"],
                             "data_dir_is_files_dir": os.path.realpath(hosts.get("/data", "")) == os.path.realpath(d1)})
        sh = hosts.get("/scripts", "")
        rec["pkg_dir_is_tmp"] = os.path.realpath(sh).startswith(os.path.realpath(tmpd))
    left = []
    for x in sorted(os.listdir(tmpd)):
        if any(p is not None and os.path.realpath(os.path.join(tmpd, x)) == os.path.realpath(str(p)) for p in (returned_path, prior_path)):
            continue
        left.append(x)
    rec["tmp_left"] = left
    print("VPREC " + json.dumps(rec))


if __name__ == "__main__":
    main()
