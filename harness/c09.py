"""C09 - unsupported or malformed queries are refused, never half-translated.

TLC (MCGrafts) enumerates base queries and every graft of an unsupported construct at every
position where it fits; each graft is sent to the real translator (fresh fork); TLC (JobTrace,
clause Refuses) requires that translation raised.  A graft that is accepted is additionally
compiled and run so that the replay file shows what the emitted code lacks."""
import json
import random

import common
import mockbuild
import pcheck
import pipeline
import render

BACKENDS = ("atlas", "cms_aod", "cms_miniaod")


def run(tier):
    rep = common.Report("C09", tier)
    rnd = random.Random(common.seed())
    mockbuild.build_all()
    uni = mockbuild.universe()
    gen = common.run_tlc("MCGrafts", "MCGrafts_%s.cfg" % tier)
    # second base family: queries that call C++ functions supplied through metadata (their calls are grafted with a
    # wrong number of arguments / the wrong call style); these carry the functions' declarations
    gen2 = common.run_tlc("MCGrafts", "MCGrafts_userfn.cfg")
    cases = []
    nbase = 0
    grafts_total = 0
    seen_q = set()
    for fam, bases in (("core", gen.tagged("CASE")), ("userfn", gen2.tagged("CASE"))):
        for i, b in enumerate(bases):
            if b["support"] != "MUST_ACCEPT":
                continue
            nbase += 1
            for g in b["grafts"]:
                how = g["how"]
                if fam == "userfn" and not how.startswith(("userfn_", "builtin_fn_")):
                    continue
                k = json.dumps(g["q"], sort_keys=True)
                if k in seen_q:
                    continue
                seen_q.add(k)
                grafts_total += 1
                if how.endswith("@atlas"):
                    backend = "atlas"
                else:
                    backend = BACKENDS[(i + len(cases)) % 3]
                cases.append({"backend": backend, "q": g["q"], "support": "MUST_REJECT", "how": how.split("@")[0],
                              "base": b["q"], "fam": fam})
    cap = 4000 if tier == "quick" else 40000
    exhaustive = True
    if len(cases) > cap:
        # keep every construct represented: sample within each kind
        bykind = {}
        for c in cases:
            bykind.setdefault(c["how"], []).append(c)
        per = max(1, cap // len(bykind))
        cases = [c for k in sorted(bykind) for c in (bykind[k] if len(bykind[k]) <= per else rnd.sample(bykind[k], per))]
        exhaustive = False
    for i, c in enumerate(cases):
        c["id"] = i + 1
        md = None
        if c["fam"] == "userfn":
            b = c["backend"]
            md = [{k: v for k, v in m.items() if v != ""} for m in uni["md"][b]] + [{k: v for k, v in m.items() if v != ""} for m in uni["fnmd"][b]]
        c["src"] = render.render(c["q"], uni, c["backend"], render.Style(method_style=(i % 3 != 0)), md=md)
    events, er = pipeline.generate_events(2)
    recs = pipeline.run_cases(cases, events, [[1]], keep_emitted=True)
    verdicts, summaries, vs, vt = pipeline.validate(recs, events)
    byid = {r["id"]: r for r in recs}
    cbyid = {c["id"]: c for c in cases}
    pf = pcheck.PFindings(rep.findings)
    kinds = {}
    for c in cases:
        kinds[c["how"]] = kinds.get(c["how"], 0) + 1
    accepted = {}
    for cid, clause, run_i, pos in verdicts:
        if clause != "Refuses":
            continue
        rec = byid[cid]
        c = cbyid[cid]
        accepted[c["how"]] = accepted.get(c["how"], 0) + 1
        known = pf.lookup(clause, rec["backend"], rec["q"])
        key = known or "Refuses@%s:%s:%s" % (rec["backend"], c["how"], render.compact(rec["q"]))
        rep.fail(key, {"clause": "Refuses", "construct": c["how"], "backend": rec["backend"], "query": rec["src"],
                       "base_term": c["base"], "translate": rec["translate"], "compile": rec["compile"],
                       "emitted": rec.get("emitted", "")[-5000:]})
    raised = sum(1 for r in recs if r["translate"]["outcome"] == "raise")
    cov = {
        "states": gen.distinct + gen2.distinct + er.distinct + vs,
        "transitions": gen.generated + gen2.generated + er.generated + vt,
        "traces_validated_against_impl": len(recs),
        "evaluations": len(recs),
        "distinct_nontrivial": len({(render.compact(c["q"]), c["backend"]) for c in cases}),
        "rule": "bases: every MUST_ACCEPT query of the core profile within MaxSize of MCGrafts_%s.cfg (%d); grafts: every unsupported construct of "
                "spec/Grafts.tla at every position where it fits (%d enumerated, %d run, exhaustive=%s); every graft changes Support from accepted to "
                "MUST_REJECT, so all are non-trivial; distinct by grafted term x backend" % (tier, nbase, grafts_total, len(cases), exhaustive),
        "exhaustive": exhaustive,
        "constructs": kinds,
        "raised": raised,
        "accepted_by_construct": accepted,
        "samples": [{"construct": cases[0]["how"], "query": cases[0]["src"][-250:]},
                    {"construct": cases[-1]["how"], "query": cases[-1]["src"][-250:]}],
    }
    return rep.finish("model_checking", cov, assumptions=[
        "any exception raised by apply_ast_transformations / write_cpp_files counts as a refusal",
        "keyword arguments to opaque methods and other extras whose meaning the specification cannot know are not grafted (MAY)",
    ])


def replay(path):
    r = json.load(open(path))
    mockbuild.build_all()
    case = {"id": 1, "backend": r["backend"], "q": {"k": "Raw", "a": "", "b": "", "n": 0, "d": 1, "ch": []},
            "support": "MUST_REJECT", "src": r["query"]}
    events, _ = pipeline.generate_events(2)
    recs = pipeline.run_cases([case], events, [[1]], procs=1)
    print(json.dumps(recs[0]["translate"], indent=1)[:1500])
    if recs[0]["translate"]["outcome"] == "ok":
        print("VIOLATION property=C09 replay=%s" % path)
        return 1
    print("replay: the query is refused now")
    return 0
