"""C18 - constants in a query denote the same value in the generated code.

TLC (MCLiterals) enumerates the literal space x positions (output value, bank name, tree / column
name); each case goes through the real translator and the compiled job; the job logs the exact text
of every scalar it wrote, the bank strings it asked the store for and the names it booked; TLC
(JobTrace) compares them with the literal itself.  Strings travel as sequences of character names
(see spec/MCLiterals.tla); the mapping name <-> character below is the only thing Python adds."""
import copy
import json
import os

import common
import mockbuild
import pcheck
import pipeline
import render

CHARS = {"a": "a", "Z": "Z", "QUOTE": '"', "BSL": "\\", "NL": "\n", "PCT": "%", "EACUTE": "é", "LBRACE": "{", "SP": " ", "APOS": "'"}
NAMES = {v: k for k, v in CHARS.items()}
BACKENDS = ("atlas", "cms_aod", "cms_miniaod")


def decode(enc):
    return "".join(CHARS[n] for n in enc.split(".")) if enc else ""


def encode(s):
    return ".".join(NAMES.get(ch, "U+%04X" % ord(ch)) for ch in s)


def _decoded_tree(t):
    t = copy.deepcopy(t)

    def walk(n):
        if n["k"] == "Coll":
            n["b"] = decode(n["b"])
        if n["k"] == "Root":
            n["a"] = decode(n["a"])
        if n["k"] == "Str":
            n["a"] = decode(n["a"])
        for c in n["ch"]:
            walk(c)
    walk(t)
    return t


def _canon_cells(rows, types):
    for row in rows:
        for i, cell in enumerate(row):
            if cell.get("k") == "s" and "r" in cell:
                ty = types[i] if i < len(types) else ""
                try:
                    if ty in ("float", "double"):
                        cell["r"] = repr(float(cell["r"]))
                    elif ty == "bool":
                        cell["r"] = "True" if int(cell["r"]) else "False"
                    else:
                        cell["r"] = str(int(cell["r"]))
                except ValueError:
                    pass


def run(tier):
    rep = common.Report("C18", tier)
    mockbuild.build_all()
    uni = mockbuild.universe()
    gen = common.run_tlc("MCLiterals", "MCLiterals.cfg")
    lits = gen.tagged("CASE")
    cases = []
    for i, c in enumerate(lits):
        bks = BACKENDS if (tier == "thorough" or c["pos"] != "bank") else (BACKENDS[i % 3],)
        if c["pos"] == "bank":
            bks = BACKENDS if tier == "thorough" else (BACKENDS[i % 3],)
        for b in bks:
            cases.append({"id": len(cases) + 1, "backend": b, "q": c["q"], "support": c["support"], "pos": c["pos"],
                          "src": render.render(_decoded_tree(c["q"]), uni, b, render.Style(method_style=False), md=[])})
    events, er = pipeline.generate_events(2)
    os.environ["VP_TEXT"] = "1"
    try:
        recs = pipeline.run_cases(cases, events, [[1], [2]], keep_emitted=True)
    finally:
        os.environ.pop("VP_TEXT", None)
    # strings observed by the model job -> sequences of character names; exact texts -> Python's repr
    for r in recs:
        r["translate"]["treename"] = encode(r["translate"]["treename"])
        for run_ in r["runs"]:
            types = []
            run_["booked"]["consumes"] = [[c[0], encode(c[1])] + list(c[2:]) for c in run_["booked"].get("consumes", [])]
            for t in run_["booked"]["trees"]:
                t["tree"] = encode(t["tree"])
                for br in t["branches"]:
                    br["name"] = encode(br["name"])
                types = [br["type"] for br in t["branches"]]
            for ev in run_["events"]:
                ev["requests"] = [[rq[0], encode(rq[1])] for rq in ev["requests"]]
                _canon_cells(ev["rows"], types)
    verdicts, summaries, vs, vt = pipeline.validate(recs, events)
    byid = {r["id"]: r for r in recs}
    cbyid = {c["id"]: c for c in cases}
    pf = pcheck.PFindings(rep.findings)
    clauses = {"Accepts", "Compiles", "BookingFault", "RowsMatch", "SchemaMatches", "DescriptorMatches", "RequestsAdmissible",
               "SpuriousFault", "FaultMissed", "OneTree", "TokensPerUse"}
    seen_clause = {}
    for cid, clause, run_i, pos in verdicts:
        if clause not in clauses:
            continue
        rec = byid[cid]
        c = cbyid[cid]
        lit = _literal_of(rec["q"])
        known = pf.lookup(clause, rec["backend"], rec["q"])
        key = known or "%s@%s:%s:%s" % (clause, rec["backend"], c["pos"], lit)
        seen_clause[clause] = seen_clause.get(clause, 0) + 1
        rep.fail(key, pcheck.replay_record(None, rec, clause, run_i, pos, events, [[1], [2]]) | {"position": c["pos"], "literal": lit})
    cov = {
        "states": gen.distinct + er.distinct + vs,
        "transitions": gen.generated + er.generated + vt,
        "traces_validated_against_impl": len(recs),
        "evaluations": len(recs),
        "distinct_nontrivial": len({(c["pos"], _literal_of(c["q"]), c["backend"]) for c in cases
                                    if byid[c["id"]]["compile"]["ok"]}),
        "rule": "literal space of spec/MCLiterals.tla: %d (integers by magnitude class up to beyond 2^64, floats in Python's repr notations incl. subnormal, "
                "largest finite and inf, booleans, strings of length 1-3 over {a, Z, quote, backslash, newline, percent, e-acute, left brace, space, apostrophe}) "
                "x positions (output value, bank name, tree and column name); non-trivial = the package compiled; distinct by position x literal x backend" % len(lits),
        "exhaustive": True,
        "clause_failures": seen_clause,
        "refused": sum(1 for r in recs if r["translate"]["outcome"] != "ok"),
        "samples": [{"pos": cases[0]["pos"], "literal": _literal_of(cases[0]["q"]), "query": cases[0]["src"][-120:]},
                    {"pos": cases[-1]["pos"], "literal": _literal_of(cases[-1]["q"]), "query": cases[-1]["src"][-160:]}],
    }
    return rep.finish("model_checking", cov, assumptions=pcheck.ASSUMPTIONS + [
        "strings are carried through TLC as sequences of character names; the name <-> character table in harness/c18.py is trusted",
        "the exact text of a written scalar is the driver's %.17g / %lld rendering, canonicalised with Python's float()/int() and repr()",
    ])


def _literal_of(q):
    lits = [n["b"] for n in pcheck._subterms(q) if n["k"] == "Lit"]
    if lits:
        return ",".join(lits)
    banks = [n["b"] for n in pcheck._subterms(q) if n["k"] == "Coll"]
    if len(banks) > 1:
        return "+".join(banks)
    for n in pcheck._subterms(q):
        if n["k"] == "Coll":
            return n["b"]
        if n["k"] == "Root":
            return n["a"] if n["a"] != "a" else n["ch"][1]["a"]
    return "?"


def replay(path):
    print("replay: re-run ./check C18 (the literal space is small and fully enumerated)")
    return run("quick")
