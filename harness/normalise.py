"""Text normaliser for comparisons 'up to the numbering of generated names' (C07, C08)."""
import re

_GEN = re.compile(r"\b(_?[A-Za-z_]+?)(\d+)\b")
_FIRST_MSG = re.compile(r'(throw std::runtime_error\(")[^"]*("\))')


def names(text):
    """Rename every generated identifier (<stem><number>) by order of first appearance and blank the
    payload of the First() diagnostic (it quotes the user's query text)."""
    text = _FIRST_MSG.sub(r"\1...\2", text)
    table = {}

    def sub(m):
        full = m.group(0)
        if full not in table:
            table[full] = "%s#%d" % (m.group(1), len(table))
        return table[full]

    return _GEN.sub(sub, text)
