"""Reference table for C12: value of the C library function of each documented name at every
argument tuple the generated queries can produce.  TLC cannot compute sin(); it looks results up
here (spec/Query.tla, MathApply) and does the bookkeeping.  Trusted: libm."""
import itertools
import json
import os
import subprocess

import common

# documented name -> C function of that name (ln is the natural logarithm, abs the absolute value)
C_NAME = {"ln": "log", "abs": "fabs"}
FNS1 = ["sin", "cos", "tan", "acos", "asin", "atan", "sinh", "cosh", "tanh", "asinh", "acosh", "atanh", "exp", "log", "ln",
        "log10", "exp2", "expm1", "ilogb", "log1p", "log2", "sqrt", "cbrt", "erf", "erfc", "tgamma", "lgamma", "ceil", "floor",
        "trunc", "round", "rint", "nearbyint", "fabs", "abs"]
FNS2 = ["atan2", "ldexp", "scalbn", "scalbln", "pow", "hypot", "fmod", "remainder", "copysign", "nextafter", "nexttoward",
        "fdim", "fmax", "fmin"]
FNS3 = ["fma"]
# every rational the profiles' constants and the event value pools can feed to a function
ARGS = sorted({(n, d) for n in range(-2, 8) for d in (1, 2) if d == 1 or n % 2}, key=lambda x: x[0] / x[1])


def _key(f, args):
    return "%s(%s)" % (f, ",".join("%d/%d" % a for a in args))


def build(path):
    work = common.scratch("verif.math.")
    src = os.path.join(work, "ref.c")
    lines = ["#include <math.h>", "#include <stdio.h>", "int main(void) {"]
    for fns, ar in ((FNS1, 1), (FNS2, 2), (FNS3, 3)):
        pool = ARGS if ar < 3 else [a for a in ARGS if a[1] == 1 and -1 <= a[0] <= 3] + [(1, 2)]
        for f in fns:
            cf = C_NAME.get(f, f)
            for args in itertools.product(pool, repeat=ar):
                call = "%s(%s)" % (cf, ", ".join("(%d.0/%d.0)" % a for a in args))
                lines.append('  printf("%s %%.17g\\n", (double)%s);' % (_key(f, args), call))
    lines += ["  return 0;", "}"]
    open(src, "w").write("\n".join(lines))
    exe = os.path.join(work, "ref")
    p = subprocess.run(["gcc", "-O0", "-o", exe, src, "-lm"], stdout=subprocess.PIPE, stderr=subprocess.STDOUT, text=True)
    if p.returncode != 0:
        raise common.MachineryError("reference program failed to build: " + p.stdout[-1500:])
    out = subprocess.run([exe], stdout=subprocess.PIPE, text=True).stdout
    table = {}
    for line in out.splitlines():
        key, val = line.rsplit(" ", 1)
        v = float(val)
        if v != v:
            table[key] = {"n": 0, "d": 1, "f": "nan"}
        elif v in (float("inf"), float("-inf")) or abs(v) > 1000:
            table[key] = {"n": 0, "d": 1, "f": "big"}
        else:
            table[key] = {"n": int(round(v * 1000)), "d": 1000, "f": "ok"}
    json.dump(table, open(path, "w"))
    return len(table)
