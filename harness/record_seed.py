"""record_seed.py <seed dir> <name> <property> <json-meta>: file a seeded change under /verif/seeded/<name>/
(patch.diff, demonstration, notes, meta.json).  Plain files only."""
import json
import os
import shutil
import sys

src, name, prop, meta = sys.argv[1], sys.argv[2], sys.argv[3], json.loads(sys.argv[4])
dst = os.path.join(os.path.dirname(os.path.dirname(os.path.abspath(__file__))), "seeded", name)
os.makedirs(dst, exist_ok=True)
for f in os.listdir(src):
    p = os.path.join(src, f)
    if os.path.isfile(p) and not f.startswith("."):
        shutil.copy(p, os.path.join(dst, f))
if not os.path.exists(os.path.join(dst, "patch.diff")):
    sys.exit("no patch.diff in " + src)
m = {"id": name, "property": prop, "source": "independent sub-agent (round 2), given only the property text and a scratch worktree"}
m.update(meta)
json.dump(m, open(os.path.join(dst, "meta.json"), "w"), indent=1)
print("recorded", dst, sorted(os.listdir(dst)))
