"""C16 - runner.sh honours its flags and never reports success after a failed step.

 1. design: TLC explores the Runner machine (invocation sequences, required outcomes) and
    checks its design-level properties; every sequence is exported.
 2. spec -> code: each sequence is replayed with the real rendered runner.sh of each backend,
    unmodified, in the namespace sandbox with stub tools; the fault-free replay yields the
    list of external commands of the last invocation, and the sequence is then replayed once
    per command with that command failing (fault points are discovered, not transcribed).
 3. code -> spec: TLC (RunnerTrace) validates every observed invocation."""
import json
import multiprocessing as mp
import os
import random
import shutil

import common
import sandbox
import translate

BACKENDS = {"atlas": "Jets", "cms_aod": "Muons", "cms_miniaod": "Muons"}


def _argv(inv):
    a = []
    if inv["kind"] in ("compile", "both"):
        a.append("-c")
    if inv["kind"] in ("run", "both"):
        a.append("-r")
    if inv["kind"] == "badflag":
        a.append("-x")
    if inv["kind"] == "stray":
        a.append("stray_argument")
    if inv["d"]:
        a += ["-d", inv["d"]]
    if inv["o"] == "dir":
        a += ["-o", "/out2"]
    elif inv["o"] == "file":
        a += ["-o", "/out2/custom.root"]
    return a


def _classify(script, cmds):
    out = []
    for c in cmds:
        cls = c["cls"]
        if c["tool"] == "cp" and c["args"] and c["args"][0].endswith(("data-ANALYSIS/ANALYSIS.root", "temp-output.root")):
            cls = "copy"
        out.append(cls)
    return out


def _replay(args):
    script, pkg, seq, fault_at, work, tag = args[:6]
    late = len(args) > 6 and args[6]
    base = os.path.join(work, tag)
    os.makedirs(base)
    try:
        root = sandbox.make_root(base, script, pkg)
        recs = []
        for i, inv in enumerate(seq):
            last = i == len(seq) - 1
            o = sandbox.invoke(root, _argv(inv), str(i + 1), fault_at if last else 0, late=late)
            classes = _classify(script, o["commands"])
            cls = "none"
            if last and fault_at:
                cls = classes[fault_at - 1] if fault_at <= len(classes) else "notreached"
            recs.append({"kind": inv["kind"], "d": inv["d"], "o": inv["o"], "fault_at": fault_at if last else 0, "cls": cls, "late": bool(late and last),
                         "exit": o["exit"], "nsteps": len(o["commands"]), "classes": classes,
                         "tools": [c["tool"] for c in o["commands"]],
                         "dests": [{"path": p, "run": v["run"], "inputs": v["inputs"], "converted": v["converted"], "ident": v["ident"]}
                                   for p, v in sorted(o["dests"].items())],
                         "output": o["output"][-600:]})
        return {"script": script, "invs": recs}
    finally:
        shutil.rmtree(base, ignore_errors=True)


def _packages(work):
    pk = {}
    for b, coll in BACKENDS.items():
        d = os.path.join(work, "pkg_" + b)
        r = translate.translate_source('Select(EventDataset("x"), lambda e: e.%s("b").Select(lambda j: j.pt()))' % coll, b, d)
        if r["outcome"] != "ok":
            raise common.MachineryError("cannot render the %s package: %s" % (b, r["msg"]))
        pk[b] = d
    return pk


def run(tier, only=None):
    rep = common.Report("C16", tier)
    rnd = random.Random(common.seed())
    if not sandbox.available():
        raise common.MachineryError("namespace sandbox (unshare --mount --map-root-user + chroot) is not available here")
    design = common.run_tlc("Runner", "Runner_%s.cfg" % tier)
    seqs = [s for s in design.tagged("SEQ") if s]
    total = len(seqs)
    cap = 260 if tier == "quick" else 4000
    if total > cap:
        short = [s for s in seqs if len(s) <= 2]
        longer = [s for s in seqs if len(s) > 2]
        seqs = short + rnd.sample(longer, max(0, cap - len(short)))
    work = common.scratch("verif.c16.")
    common.use_repo()
    pk = _packages(work)
    jobs = []
    for b in BACKENDS:
        for i, s in enumerate(seqs):
            jobs.append((b, pk[b], s, 0, work, "f_%s_%d" % (b, i)))
    ctx = mp.get_context("fork")
    with ctx.Pool(processes=common.NCPU) as pool:
        clean = pool.map(_replay, jobs, chunksize=4)
        # fault injection into the last invocation: one replay per discovered command
        fjobs = []
        for j, tr in zip(jobs, clean):
            last = tr["invs"][-1]
            inv = j[2][-1]
            if tier == "quick" and not ((inv["d"] == "" and inv["o"] == "default") or (inv["d"] != "" and inv["o"] != "default")):
                continue
            for k in range(1, last["nsteps"] + 1):
                fjobs.append((j[0], j[1], j[2], k, work, "%s_k%d" % (j[5], k)))
                if last["classes"][k - 1] in ("job", "convert"):
                    # the same step failing LATE: the tool has written its output (a partial file) and then dies
                    fjobs.append((j[0], j[1], j[2], k, work, "%s_k%dl" % (j[5], k), True))
        faulted = pool.map(_replay, fjobs, chunksize=4)
    traces = clean + faulted
    tf = os.path.join(work, "trace.json")
    json.dump([{"script": t["script"], "invs": [{k: r[k] for k in ("kind", "d", "o", "fault_at", "cls", "exit", "dests")} for r in t["invs"]]}
               for t in traces], open(tf, "w"))
    val = common.run_tlc("RunnerTrace", "RunnerTrace.cfg", env={"TRACE_FILE": tf})
    nsteps = sum(len(t["invs"]) for t in traces)
    if val.distinct != nsteps + len(traces):
        raise common.MachineryError("trace validation visited %d states, expected %d" % (val.distinct, nsteps + len(traces)))
    for _, si, pos, clause in val.plain("VERDICT"):
        t = traces[si - 1]
        r = t["invs"][pos - 1]
        hist = ";".join("%s/%s/%s" % (x["kind"], x["d"] or "-", x["o"]) for x in t["invs"][:pos])
        tool = r["tools"][r["fault_at"] - 1] if r["fault_at"] and r["fault_at"] <= len(r["tools"]) else "-"
        key = "%s:%s:%s:fault=%s/%s%s" % (clause, t["script"], hist, r["cls"], tool, "(late)" if r.get("late") else "")
        rep.fail(key, {"clause": clause, "script": t["script"], "sequence": t["invs"][:pos], "position": pos})
    by_cls = {}
    for t in faulted:
        c = t["invs"][-1]["cls"]
        by_cls[c] = by_cls.get(c, 0) + 1
    cov = {
        "states": design.distinct + val.distinct,
        "transitions": design.generated + val.generated,
        "traces_validated_against_impl": len(traces),
        "evaluations": nsteps,
        "distinct_nontrivial": len({(t["script"], json.dumps([(r["kind"], r["d"], r["o"], r["fault_at"]) for r in t["invs"]]))
                                    for t in traces if any(r["kind"] in ("full", "run") or r["fault_at"] for r in t["invs"])}),
        "rule": "sequences: every invocation sequence of the Runner machine up to MaxLen of Runner_%s.cfg (%d enumerated by TLC, %d replayed) x 3 scripts; "
                "each additionally replayed once per external command of its last invocation with that command failing; non-trivial = contains a "
                "run phase or an injected failure; distinct by script x sequence x fault point" % (tier, total, len(seqs)),
        "exhaustive": total <= cap,
        "fault_free_sequences": len(clean),
        "faulted_sequences": len(faulted),
        "faults_by_step_class": by_cls,
        "samples": [{"script": t["script"], "invs": [{k: r[k] for k in ("kind", "d", "o", "fault_at", "cls", "exit", "tools")} for r in t["invs"]]}
                    for t in (clean[1], faulted[len(faulted) // 2])],
    }
    return rep.finish("fault_enumeration", cov, assumptions=[
        "the scripts run unmodified under bash in a private user+mount namespace (unshare, bind mounts, chroot); external tools are the stubs in "
        "harness/stubs, which log their call, fail on request, and otherwise do the minimum the next step needs",
        "a command's step class (setup/build/job/convert/copy/util) is assigned by the stub that logs it; the final cp of ANALYSIS.root is class copy",
    ])


def replay(path):
    r = json.load(open(path))
    work = common.scratch("verif.c16.")
    common.use_repo()
    pk = _packages(work)
    seq = [{"kind": x["kind"], "d": x["d"], "o": x["o"]} for x in r["sequence"]]
    k = r["sequence"][-1]["fault_at"]
    t = _replay((r["script"], pk[r["script"]], seq, k, work, "replay", bool(r["sequence"][-1].get("late"))))
    tf = os.path.join(work, "t.json")
    json.dump([{"script": t["script"], "invs": [{kk: x[kk] for kk in ("kind", "d", "o", "fault_at", "cls", "exit", "dests")} for x in t["invs"]]}], open(tf, "w"))
    val = common.run_tlc("RunnerTrace", "RunnerTrace.cfg", env={"TRACE_FILE": tf})
    print(json.dumps([{kk: x[kk] for kk in ("kind", "fault_at", "cls", "exit", "dests")} for x in t["invs"]], indent=1)[:2000])
    if val.plain("VERDICT"):
        print("VIOLATION property=C16 replay=%s" % path)
        return 1
    print("replay: accepted by the specification now")
    return 0
