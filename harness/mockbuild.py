"""Builds the model experiment software under /verif/build:
   - universe.json: exported by TLC from spec/Universe.tla
   - model/<backend>/...: data-model headers generated from the universe (classes whose
     methods have exactly the declared C++ return types and read their values from the
     current event), plus empty stand-ins for the other headers the experiment provides
   - pch/<backend>/vp_pch.h.gch and obj/vp_driver.o
Plumbing only: what a method returns is decided by the event, never here."""
import hashlib
import json
import os
import shutil
import subprocess

import common

BUILD = os.path.join(common.ROOT, "build")
MODEL_SRC = os.path.join(common.ROOT, "harness", "model")
BACKENDS = ("atlas", "cms_aod", "cms_miniaod")
CXXFLAGS = ["-std=c++17", "-O0", "-w", "-ftrivial-auto-var-init=pattern"]

CMS_FW_HEADERS = [
    "FWCore/Framework/interface/Frameworkfwd.h",
    "FWCore/Framework/interface/EDAnalyzer.h",
    "FWCore/Framework/interface/one/EDAnalyzer.h",
    "FWCore/Framework/interface/Event.h",
    "FWCore/Framework/interface/MakerMacros.h",
    "FWCore/ParameterSet/interface/ParameterSet.h",
    "FWCore/Framework/interface/EventSetup.h",
    "FWCore/ServiceRegistry/interface/Service.h",
    "CommonTools/UtilAlgos/interface/TFileService.h",
    "FWCore/Utilities/interface/InputTag.h",
    "TTree.h",
]


def universe():
    p = os.path.join(BUILD, "universe.json")
    if not os.path.exists(p):
        raise common.MachineryError("build/universe.json missing: run ./setup.sh")
    return json.load(open(p))


def export_universe():
    r = common.run_tlc("ExportUniverse", "ExportUniverse.cfg", workers=1)
    u = r.tagged("UNIVERSE")
    if len(u) != 1:
        raise common.MachineryError("ExportUniverse printed %d records" % len(u))
    os.makedirs(BUILD, exist_ok=True)
    json.dump(u[0], open(os.path.join(BUILD, "universe.json"), "w"), indent=1)
    return u[0]


def _method_cpp(m, backend, u):
    """One member function of a model class: declared C++ return type, value from the event."""
    cpp = m["cpp"][backend]
    name = m["name"]
    mode = m.get("mode", "std")
    if mode == "byvalue" and m["kind"] in ("R1", "R2"):
        return '  %s %s() const { %s r; r._id = vp::ref(_id, "%s"); return r; }' % (cpp, name, cpp, name)
    if mode == "byvalue":
        return '  %s %s() const { return *vp::obj<%s>(vp::ref(_id, "%s")); }' % (cpp, name, cpp, name)
    if mode == "ptr2":
        base = cpp.rstrip("*")
        return ('  %s %s() const { static std::map<int, %s*> slot; int r = vp::ref(_id, "%s"); slot[r] = vp::obj<%s>(r); '
                'return &slot[r]; }' % (cpp, name, base, name, base))
    if mode == "collptr":
        return ('  std::vector<%s>* %s() const { static std::map<int, std::vector<%s>> slot; slot[_id] = vp::numvec<%s>(_id, "%s"); '
                'return &slot[_id]; }' % (cpp, name, cpp, cpp, name))
    if mode == "treetype":
        return '  vp::Code %s() const { return static_cast<vp::Code>(static_cast<int>(vp::num(_id, "%s"))); }' % (name, name)
    if mode == "enum":
        return '  Color %s() const { return static_cast<Color>(static_cast<int>(vp::num(_id, "%s"))); }' % (name, name)
    if mode == "enumarg":
        return '  int %s(Color c) const { return static_cast<int>(vp::num(_id, "color")) == static_cast<int>(c) ? 1 : 0; }' % name
    if m["ret"] == "num":
        if cpp == "bool":
            return '  bool %s() const { return vp::num(_id, "%s") != 0; }' % (name, name)
        return '  %s %s() const { return static_cast<%s>(vp::num(_id, "%s")); }' % (cpp, name, cpp, name)
    if m["ret"] == "obj":
        base = cpp.rstrip("*")
        return '  %s %s() const { return vp::obj<%s>(vp::ref(_id, "%s")); }' % (cpp, name, base, name)
    if m["ret"] == "vecnum":
        return '  std::vector<%s> %s() const { return vp::numvec<%s>(_id, "%s"); }' % (cpp, name, cpp, name)
    if m["ret"] == "vecobj":
        if cpp.endswith("*"):
            base = cpp.rstrip("*")
            return ('  std::vector<%s> %s() const { std::vector<%s> r; for (auto p : vp::ptrvec<%s>(_id, "%s")) '
                    'r.push_back(const_cast<%s>(p)); return r; }' % (cpp, name, cpp, base, name, cpp))
        return '  std::vector<%s> %s() const { return vp::valvec<%s>(_id, "%s"); }' % (cpp, name, cpp, name)
    raise common.MachineryError("unknown method kind " + m["ret"])


def _ns_wrap(qualified, body):
    parts = qualified.split("::")
    ns, cls = parts[:-1], parts[-1]
    pre = "".join("namespace %s { " % n for n in ns)
    post = "}" * len(ns)
    return pre + "\n" + body.replace("@CLS@", cls) + "\n" + post + "\n"


def class_header(cls, backend, u, extra_methods=()):
    b = u["backends"][backend]
    q = b["classes"][cls]
    methods = [m for m in u["methods"] if m["cls"] == cls] + list(extra_methods)
    deps = sorted({m["kind"] for m in methods if m["ret"] in ("obj", "vecobj") and m["kind"] != cls})
    lines = ["#pragma once", '#include "vp_core.h"']
    for d in deps:
        lines.append('#include "vp_edm_%s.h"' % d)
    if cls in ("R1", "R2"):
        # smart references to a T: R1 reaches T's methods with one dereference, R2 with two
        t = b["classes"]["T"]
        ref = ('#include "vp_edm_T.h"\nnamespace vp {\n'
               'struct TRef { int _id = 0; %s *operator->() const { return vp::obj<%s>(_id); } '
               '%s &operator*() const { return *vp::obj<%s>(_id); } bool isNonnull() const { return _id != 0; } };\n'
               'struct TRefRef { int _id = 0; TRef *operator->() const { return &*(*this); } '
               'TRef &operator*() const { static std::map<int, TRef> slot; slot[_id]._id = _id; return slot[_id]; } };\n}\n' % (t, t, t, t))
        return "#pragma once\n" + ('#include "vp_core.h"\n' + ref if cls == "R1" else '#include "vp_edm_R1.h"\n')
    body = "class @CLS@ {\n public:\n  int _id = 0;\n"
    if any(m.get("mode") in ("enum", "enumarg") for m in methods):
        body += "  enum Color { Red = 0, Blue = 1 };\n"
    body += "\n".join(_method_cpp(m, backend, u) for m in methods if m.get("mode") != "moment")
    if any(m.get("mode") == "moment" for m in methods) and backend == "atlas":
        # the templated accessor of xAOD::Jet: a float moment or a vector<double> moment, by name
        body += ('\n  template <class T> T getAttribute(const std::string &n) const {\n'
                 '    if constexpr (std::is_same<T, float>::value) return static_cast<float>(vp::num(_id, n.c_str()));\n'
                 '    else { static_assert(std::is_same<T, std::vector<double>>::value, "moment type"); return vp::numvec<double>(_id, n.c_str()); }\n  }')
    # a class that is itself a singleton collection is retrieved directly from the store
    for coll in u["singletons"]:
        if u["collClass"][coll] == cls and b["colls"][coll]["py"]:
            body += ('\n  static const char *vp_ctype() { return "%s"; }\n  static const char *vp_coll() { return "%s"; }\n'
                     "  static const %s *vp_fetch(const std::vector<int> &ids) { return ids.size() == 1 ? vp::obj<%s>(ids[0]) : nullptr; }"
                     % (b["colls"][coll]["ctype"], coll, q, q))
    body += "\n};"
    fwd = _ns_wrap(q, "class @CLS@;")
    return "\n".join(lines) + "\n" + fwd + _ns_wrap(q, body)


def container_text(coll, ctype, cls, backend, u):
    b = u["backends"][backend]
    q = b["classes"][cls]
    cname = ctype.split("::")[-1]
    if b["elemptr"]:
        elem = "const %s *" % q
        make = "for (int i : ids) c->push_back(vp::obj<%s>(i));" % q
    else:
        elem = q
        make = "for (int i : ids) c->push_back(*vp::obj<%s>(i));" % q
    body = ("class %s : public std::vector<%s> {\n public:\n"
            '  static const char *vp_ctype() { return "%s"; }\n'
            '  static const char *vp_coll() { return "%s"; }\n'
            "  static const %s *vp_fetch(const std::vector<int> &ids) { std::shared_ptr<%s> c(new %s()); %s "
            "vp::st().keep.push_back(c); return c.get(); }\n};"
            % (cname, elem, ctype, coll, cname, cname, cname, make))
    ns = ctype.split("::")[:-1]
    pre = "".join("namespace %s { " % n for n in ns)
    post = "}" * len(ns)
    return '#include "vp_edm_%s.h"\n%s\n%s\n%s\n' % (cls, pre, body, post)


def _write(path, text):
    os.makedirs(os.path.dirname(path), exist_ok=True)
    with open(path, "w") as f:
        f.write(text)


def generate_model(u, outroot):
    for backend in BACKENDS:
        root = os.path.join(outroot, backend)
        shutil.rmtree(root, ignore_errors=True)
        os.makedirs(root)
        b = u["backends"][backend]
        # empty stand-ins for every header the experiment software is known to provide
        for h in open(os.path.join(MODEL_SRC, "headers_%s.txt" % backend)).read().split():
            _write(os.path.join(root, h), "#pragma once\n")
        for cls in b["classes"]:
            _write(os.path.join(root, "vp_edm_%s.h" % cls), class_header(cls, backend, u))
        headers = {}
        for coll, c in b["colls"].items():
            if not c["py"] or coll in u["singletons"]:
                continue
            headers.setdefault(c["header"], []).append(container_text(coll, c["ctype"], u["collClass"][coll], backend, u))
        for coll in u["singletons"]:
            c = b["colls"][coll]
            if c["py"]:
                headers.setdefault(c["header"], []).append('#include "vp_edm_%s.h"\n' % u["collClass"][coll])
        # the container a metadata declaration may substitute for the built-in A
        headers.setdefault(u["altHeader"], []).append(container_text("A", b["altA"], "A", backend, u))
        for h, parts in headers.items():
            _write(os.path.join(root, h), "#pragma once\n" + "".join(parts))
        if backend == "atlas":
            for rel in ("AnaAlgorithm/AnaAlgorithm.h", "xAODRootAccess/tools/TFileAccessTracer.h", "TTree.h", "vp_shim.h"):
                shutil.copy(os.path.join(MODEL_SRC, "atlas", rel), _mk(os.path.join(root, rel)))
        else:
            shutil.copy(os.path.join(MODEL_SRC, "cms", "vp_cms.h"), os.path.join(root, "vp_cms.h"))
            for h in CMS_FW_HEADERS:
                _write(os.path.join(root, h), '#pragma once\n#include "vp_cms.h"\n')
        _write(os.path.join(root, "vp_userfn.h"), "#pragma once\ninline double vp_twice(double x) { return 2.0 * x; }\n")
        shutil.copy(os.path.join(MODEL_SRC, "core", "vp_core.h"), os.path.join(root, "vp_core.h"))
        shutil.copy(os.path.join(MODEL_SRC, "core", "vp_pch.h"), os.path.join(root, "vp_pch.h"))


def _mk(path):
    os.makedirs(os.path.dirname(path), exist_ok=True)
    return path


def _run(cmd, **kw):
    p = subprocess.run(cmd, stdout=subprocess.PIPE, stderr=subprocess.STDOUT, text=True, **kw)
    if p.returncode != 0:
        raise common.MachineryError("command failed: %s\n%s" % (" ".join(cmd), p.stdout[-3000:]))
    return p.stdout


def _stamp():
    h = hashlib.sha1()
    for root, _, files in sorted(os.walk(MODEL_SRC)):
        for f in sorted(files):
            h.update(open(os.path.join(root, f), "rb").read())
    for f in ("Universe.tla", "Query.tla", "Values.tla"):
        h.update(open(os.path.join(common.SPEC, f), "rb").read())
    h.update(open(__file__, "rb").read())
    return h.hexdigest()


def build_all(force=False):
    stamp_file = os.path.join(BUILD, "model.stamp")
    stamp = _stamp()
    if not force and os.path.exists(stamp_file) and open(stamp_file).read() == stamp:
        return
    u = export_universe()
    generate_model(u, os.path.join(BUILD, "model"))
    os.makedirs(os.path.join(BUILD, "obj"), exist_ok=True)
    for backend in BACKENDS:
        root = os.path.join(BUILD, "model", backend)
        _run(["g++"] + CXXFLAGS + ["-x", "c++-header", os.path.join(root, "vp_pch.h"), "-o", os.path.join(root, "vp_pch.h.gch")])
    _run(["g++"] + CXXFLAGS + ["-I", os.path.join(MODEL_SRC, "core"), "-c", os.path.join(MODEL_SRC, "core", "vp_driver.cpp"),
                              "-o", os.path.join(BUILD, "obj", "vp_driver.o")])
    with open(stamp_file, "w") as f:
        f.write(stamp)


if __name__ == "__main__":
    build_all(force=True)
    print("model built")
