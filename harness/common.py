"""Shared plumbing for the /verif checks: TLC invocation, PrintT parsing, scratch
directories, known findings, evidence files, verdict reporting.

No semantics lives here: every expected value and every verdict comes out of TLC."""
import atexit
import hashlib
import json
import os
import re
import shutil
import subprocess
import sys
import tempfile
import time

ROOT = os.path.dirname(os.path.dirname(os.path.abspath(__file__)))
SPEC = os.path.join(ROOT, "spec")
REPO = os.environ.get("VERIF_REPO", "/repo")
# where evidence/ and replay/ are written; only ad-hoc runs against a scratch tree (seeded changes) redirect it
OUT = os.environ.get("VERIF_OUT") or os.path.dirname(os.path.dirname(os.path.abspath(__file__)))
PY = "/venv/bin/python"
NCPU = os.cpu_count() or 4


class MachineryError(Exception):
    "Something in the checking machinery itself failed (exit code 2)."


_scratch = []


def scratch(prefix="verif."):
    d = tempfile.mkdtemp(prefix=prefix)
    _scratch.append(d)
    return d


def _cleanup():
    if os.environ.get("VERIF_KEEP"):
        return
    for d in _scratch:
        shutil.rmtree(d, ignore_errors=True)


atexit.register(_cleanup)


def seed():
    try:
        return int(os.environ.get("VERIF_SEED", "0"))
    except ValueError:
        return 0


# ---------------------------------------------------------------- TLC

_STATS = re.compile(r"(\d+) states generated, (\d+) distinct states found")


class TLCResult:
    def __init__(self, out, rc, wall):
        self.out = out
        self.rc = rc
        self.wall = wall
        m = _STATS.findall(out)
        self.generated = int(m[-1][0]) if m else 0
        self.distinct = int(m[-1][1]) if m else 0

    def tagged(self, tag):
        """All values printed as PrintT(<<"TAG", "<json>">>), decoded."""
        res = []
        head = '<<"%s", "' % tag
        for line in self.out.splitlines():
            i = line.find(head)
            if i < 0:
                continue
            j = line.rfind('">>')
            if j < 0:
                continue
            body = line[i + len(head):j]
            res.append(json.loads(_unescape_tla(body)))
        return res

    def plain(self, tag):
        """Lines printed as PrintT(<<"TAG", a, b, ...>>) with simple scalar fields."""
        res = []
        head = '<<"%s"' % tag
        for line in self.out.splitlines():
            i = line.find(head)
            if i < 0:
                continue
            j = line.rfind(">>")
            body = line[i + 2:j]
            res.append(_split_tuple(body))
        return res


_ESC = re.compile(r"\\(.)")
_ESC_MAP = {"n": "\n", "t": "\t"}


def _unescape_tla(s):
    if "\\" not in s:
        return s
    return _ESC.sub(lambda m: _ESC_MAP.get(m.group(1), m.group(1)), s)


def _split_tuple(body):
    items = []
    cur = []
    inq = False
    i = 0
    depth = 0
    while i < len(body):
        c = body[i]
        if inq:
            if c == "\\":
                cur.append(body[i + 1])
                i += 2
                continue
            if c == '"':
                inq = False
            else:
                cur.append(c)
        elif c == '"':
            inq = True
        elif c in "<{[(":
            depth += 1
            cur.append(c)
        elif c in ">}])":
            depth -= 1
            cur.append(c)
        elif c == "," and depth == 0:
            items.append("".join(cur).strip())
            cur = []
        else:
            cur.append(c)
        i += 1
    items.append("".join(cur).strip())
    conv = []
    for it in items:
        if re.fullmatch(r"-?\d+", it):
            conv.append(int(it))
        elif it == "TRUE":
            conv.append(True)
        elif it == "FALSE":
            conv.append(False)
        else:
            conv.append(it)
    return conv


def run_tlc(module, cfg=None, env=None, workers=None, extra=(), timeout=3600,
            ok_rcs=(0,), spec_dir=SPEC, deadlock=False):
    """Run TLC on spec/<module>.tla.  Returns TLCResult; raises MachineryError on
    a TLC evaluation error (anything except the return codes in ok_rcs)."""
    meta = scratch("verif.tlc.")
    cmd = ["java", "-XX:+UseParallelGC", "-Xmx12g",
           "-cp", "/opt/veriftools/tla/tla2tools.jar:/opt/veriftools/tla/CommunityModules-deps.jar",
           "tlc2.TLC", "-metadir", meta, "-noGenerateSpecTE",
           "-workers", str(workers or NCPU)]
    if not deadlock:
        cmd += ["-deadlock"]
    cmd += ["-config", cfg or (module + ".cfg")]
    cmd += list(extra)
    cmd += [module + ".tla"]
    e = dict(os.environ)
    if env:
        e.update({k: str(v) for k, v in env.items()})
    t0 = time.time()
    try:
        p = subprocess.run(cmd, cwd=spec_dir, env=e, stdout=subprocess.PIPE,
                           stderr=subprocess.STDOUT, timeout=timeout, text=True,
                           errors="replace")
    except subprocess.TimeoutExpired as ex:
        raise MachineryError("TLC timed out on %s after %ss" % (module, timeout)) from ex
    finally:
        shutil.rmtree(meta, ignore_errors=True)
    r = TLCResult(p.stdout, p.returncode, time.time() - t0)
    if p.returncode not in ok_rcs:
        tail = "\n".join(p.stdout.splitlines()[-40:])
        raise MachineryError("TLC failed on %s (rc=%d):\n%s" % (module, p.returncode, tail))
    return r


# ---------------------------------------------------------------- findings


class Findings:
    """known_findings.txt:  'open: property=<id> key=<key> :: <what fails>'
                            'fixed: property=<id> <commit> <what failed>'   (suppresses nothing)"""

    def __init__(self, prop):
        self.prop = prop
        self.open = {}
        path = os.path.join(ROOT, "known_findings.txt")
        if os.path.exists(path):
            for line in open(path):
                line = line.strip()
                m = re.match(r"open:\s+property=(\S+)\s+key=(\S+)\s+::\s+(.*)", line)
                if m and m.group(1) == prop:
                    self.open[m.group(2)] = m.group(3)

    def is_known(self, key):
        return key in self.open


class Report:
    """Collects verdicts of one check run and turns them into the exit code."""

    def __init__(self, prop, tier):
        self.prop = prop
        self.tier = tier
        self.findings = Findings(prop)
        self.violations = []      # (key, replay dict)
        self.known_hit = {}       # key -> count
        self.t0 = time.time()
        self.cov = {}
        self.assumptions = []

    def fail(self, key, replay):
        """A failed property-level predicate, identified by the key of its failing input."""
        if self.findings.is_known(key):
            self.known_hit[key] = self.known_hit.get(key, 0) + 1
        else:
            self.violations.append((key, replay))

    def finish(self, level, coverage, assumptions=()):
        rdir = os.path.join(OUT, "replay", self.prop)
        os.makedirs(rdir, exist_ok=True)
        for k, text in self.findings.open.items():
            if k in self.known_hit:
                print("KNOWN-FINDING: property=%s %s [key=%s, %d case(s)]" % (self.prop, text, k, self.known_hit[k]))
        seen = set()
        nviol = 0
        for key, rep in self.violations:
            if key in seen:
                continue
            seen.add(key)
            nviol += 1
            h = hashlib.sha1(key.encode()).hexdigest()[:12]
            path = os.path.join(rdir, h + ".json")
            rep = dict(rep)
            rep.setdefault("property", self.prop)
            rep.setdefault("key", key)
            with open(path, "w") as f:
                json.dump(rep, f, indent=1, default=str)
            if nviol <= 25:
                print("VIOLATION property=%s replay=%s" % (self.prop, path))
                print("   key=%s" % key)
        if nviol > 25:
            print("... %d further distinct violations (replay files written)" % (nviol - 25))
        cov = dict(coverage)
        cov["known_findings_hit"] = sorted(self.known_hit)
        cov["masked_by_known"] = sum(self.known_hit.values())
        ev = {
            "property_id": self.prop,
            "tier": self.tier,
            "seed": seed(),
            "level": level,
            "coverage": cov,
            "assumptions": list(assumptions),
            "wall_s": round(time.time() - self.t0, 2),
            "violations": nviol,
        }
        os.makedirs(os.path.join(OUT, "evidence"), exist_ok=True)
        with open(os.path.join(OUT, "evidence", self.prop + ".json"), "w") as f:
            json.dump(ev, f, indent=1, default=str)
        print("%s %s: %s violation(s), %d known-finding key(s) hit, %.1fs" % (
            self.prop, self.tier, nviol, len(self.known_hit), time.time() - self.t0))
        return 1 if nviol else 0


def tier_from_args(argv):
    tier = os.environ.get("VERIF_TIER", "quick")
    if "--tier" in argv:
        tier = argv[argv.index("--tier") + 1]
    if tier not in ("quick", "thorough"):
        tier = "quick"
    return tier


def repo_python_env():
    "Environment for child interpreters that must import the repository under test."
    e = dict(os.environ)
    e["PYTHONPATH"] = REPO + os.pathsep + os.path.join(ROOT, "harness") + os.pathsep + e.get("PYTHONPATH", "")
    e["PYTHONHASHSEED"] = "0"
    e["FUNC_ADL_XAOD_VERIF"] = "1"
    return e


def use_repo():
    "Make `import func_adl_xAOD` resolve to the tree under test in this interpreter."
    if REPO not in sys.path:
        sys.path.insert(0, REPO)
    import func_adl_xAOD  # noqa
    got = os.path.realpath(os.path.dirname(os.path.dirname(func_adl_xAOD.__file__)))
    if got != os.path.realpath(REPO):
        raise MachineryError("func_adl_xAOD imported from %s, expected %s" % (got, REPO))
