#!/bin/sh
# seed_eval.sh <dir with patch.diff + demo> <check id> [<check id> ...]
# Confirm a candidate seeded change independently and run checks against it, never touching /repo:
#   1. scratch worktree of /repo HEAD, demo must pass there;  2. apply the patch, the 316 tests must pass,
#   3. the demo must fail;  4. each named check is run (quick tier) against the scratch tree from a snapshot of /verif.
# Prints one summary line per step; removes the worktree.
d="$1"; shift
here="$(cd "$(dirname "$0")/.." && pwd)"
wt=$(mktemp -d /tmp/verif.seedtree.XXXXXX); rmdir "$wt"
git -C /repo worktree add --detach "$wt" HEAD -q 2>/dev/null || { echo "EVAL $d: cannot create worktree"; exit 2; }
demo=$(ls "$d" | grep -E '^demo.*\.py$' | head -1)
rundemo() {
  case "$demo" in
    *test*.py) (cd "$wt" && PYTHONPATH="$wt" timeout 600 /venv/bin/python -m pytest -q -p no:cacheprovider "$d/$demo" >/tmp/seed_eval_demo.$$ 2>&1); rc=$? ;;
    *) (cd "$wt" && PYTHONPATH="$wt" timeout 600 /venv/bin/python "$d/$demo" >/tmp/seed_eval_demo.$$ 2>&1); rc=$? ;;
  esac
  rm -f /tmp/seed_eval_demo.$$
  return $rc
}
# demos refer to the agent's worktree by path: rewrite a private copy to the scratch tree
tmpd=$(mktemp -d /tmp/verif.seeddemo.XXXXXX)
cp "$d"/* "$tmpd"/ 2>/dev/null
sed -i "s#/tmp/r[56]_C[0-9][0-9]#$wt#g" "$tmpd"/*.py 2>/dev/null
dd="$d"; d="$tmpd"
rundemo; base=$?
if ! git -C "$wt" apply "$dd/patch.diff" 2>/tmp/seed_eval_apply.$$; then
  echo "EVAL $dd: NOAPPLY $(head -2 /tmp/seed_eval_apply.$$ | tr '\n' ' ')"; rm -f /tmp/seed_eval_apply.$$
  git -C /repo worktree remove --force "$wt"; rm -rf "$tmpd"; exit 3
fi
rm -f /tmp/seed_eval_apply.$$
suite=$(cd "$wt" && PYTHONPATH="$wt" /venv/bin/python -m pytest -q -p no:cacheprovider --timeout=900 2>&1 | tail -1)
rundemo; with=$?
echo "EVAL $dd: demo_without=$base demo_with=$with suite='$suite'"
if [ "$#" -gt 0 ]; then
  snap=$(mktemp -d /tmp/verif.evalsnap.XXXXXX)
  (cd "$here" && git ls-files -z | xargs -0 cp --parents -t "$snap") ; cp -r "$here/build" "$snap/build"
  for id in "$@"; do
    out=$(TAILN=${TAILN:-3} "$snap/harness/seedrun.sh" "$wt" "$id" quick 2>&1)
    last=$(echo "$out" | tail -1)
    case "$last" in
      *" 0 violation(s)"*) echo "  CHECK $id MISSED  $last" ;;
      *"violation(s)"*)    echo "  CHECK $id CAUGHT  $last"; echo "$out" | grep -m3 "key=" | cut -c1-300 ;;
      *)                   echo "  CHECK $id ERROR   $out" ;;
    esac
  done
  rm -rf "$snap"
fi
git -C /repo worktree remove --force "$wt" 2>/dev/null
rm -rf "$tmpd"
