"""C08 - translation is invariant under wire format, bound names, metadata position, chaining.

 1. TLC (MCVariants) enumerates base queries and, for each, its variants: alpha-renamings from
    hostile name pools (kept only when de Bruijn forms agree), fusions of chained Where/Select,
    and the surface variants (qastle text, MetaData outermost, call style).
 2. base and variants are translated by the real code, each in a fresh fork; the rendered
    package is normalised (generated names renumbered) and digested.
 3. TLC (VariantTrace) re-checks that every variant denotes the same rows on the event pool
    (soundness of the generator) and requires equal digests (the property)."""
import hashlib
import json
import multiprocessing as mp
import os
import random
import shutil

import common
import mockbuild
import normalise
import pipeline
import render
import translate

MAIN_FILES = {"atlas": ["query.cxx", "query.h", "package_CMakeLists.txt", "ATestRun_eljob.py"],
              "cms_aod": ["Analyzer.cc"], "cms_miniaod": ["Analyzer.cc"]}


def _digest_one(args):
    src, backend, wire, work, tag = args
    d = os.path.join(work, tag)
    try:
        res = translate.translate_source(src, backend, d, wire=wire)
        text = []
        if res["outcome"] == "ok":
            for f in MAIN_FILES[backend]:
                text.append("=== %s\n%s" % (f, normalise.names(open(os.path.join(d, f), errors="replace").read())))
        blob = json.dumps({"outcome": res["outcome"], "exc": res["exc"], "text": "\n".join(text)}, sort_keys=True)
    finally:
        shutil.rmtree(d, ignore_errors=True)
    return hashlib.sha1(blob.encode()).hexdigest()[:16], blob, res["outcome"]


def _style_for(how):
    if how == "qastle":
        return render.Style(method_style=False), "qastle"
    if how == "md_outer":
        return render.Style(method_style=False, md_position="outer"), "ast"
    if how == "call_style":
        return render.Style(method_style=True), "ast"
    return render.Style(method_style=False), "ast"


def run(tier):
    rep = common.Report("C08", tier)
    rnd = random.Random(common.seed())
    mockbuild.build_all()
    uni = mockbuild.universe()
    gen = common.run_tlc("MCVariants", "MCVariants_%s.cfg" % tier)
    bases = gen.tagged("CASE")
    cap = 260 if tier == "quick" else 3000
    total = len(bases)
    if total > cap:
        bases = rnd.sample(bases, cap)
    # deeper derivations where shadowing matters, sampled by simulation with the run's seed
    sim = common.run_tlc("MCVariants", "MCVariants_shadow.cfg", workers=1,
                         extra=["-simulate", "num=%d" % (2500 if tier == "quick" else 15000), "-depth", "40",
                                "-seed", str(common.seed() + 11)])
    sim2 = common.run_tlc("MCVariants", "MCVariants_siblings.cfg", workers=1,
                          extra=["-simulate", "num=%d" % (2500 if tier == "quick" else 15000), "-depth", "48",
                                 "-seed", str(common.seed() + 12)])
    for s_ in (sim, sim2):
        seen = set()
        deep = []
        for b in s_.tagged("CASE"):
            k = json.dumps(b["q"], sort_keys=True)
            if k not in seen:
                seen.add(k)
                deep.append(b)
        bases = bases + deep[:200 if tier == "quick" else 1500]
    # one lambda holding several sibling lambdas, inside a chained step (spec/MCSiblings.tla)
    sib = common.run_tlc("MCSiblings", "MCSiblings.cfg").tagged("CASE")
    sib.sort(key=lambda b: json.dumps(b["q"], sort_keys=True))
    nest3 = [b for b in sib if b.get("fam") == "nest3"]
    sib = [b for b in sib if b.get("fam") != "nest3"]
    bases = bases + (rnd.sample(sib, 80) + nest3 if tier == "quick" else sib + nest3)
    events, er = pipeline.generate_events(6)
    backends = ("atlas", "cms_aod", "cms_miniaod")
    jobs = []
    cases = []
    work = common.scratch("verif.c08.")
    for i, b in enumerate(bases):
        backend = backends[i % 3]
        case = {"id": i + 1, "backend": backend, "q": b["q"], "variants": []}
        base_src = _render(b["q"], uni, backend, render.Style(method_style=False))
        jobs.append((base_src, backend, "ast", work, "c%d_base" % i))
        case["src"] = base_src
        for j, v in enumerate(b["variants"]):
            style, wire = _style_for(v["how"])
            src = _render(v["q"], uni, backend, style)
            jobs.append((src, backend, wire, work, "c%d_v%d" % (i, j)))
            case["variants"].append({"how": v["how"], "q": v["q"], "src": src})
        cases.append(case)
    common.use_repo()
    translate.executor_for("atlas")
    pipeline._pristine()
    ctx = mp.get_context("fork")
    with ctx.Pool(processes=common.NCPU, maxtasksperchild=1) as pool:
        res = pool.map(_digest_one, jobs, chunksize=1)
    it = iter(res)
    blobs = {}
    for case in cases:
        dg, blob, oc = next(it)
        case["digest"] = dg
        case["outcome"] = oc
        blobs[(case["id"], 0)] = blob
        for j, v in enumerate(case["variants"]):
            dg, blob, oc = next(it)
            v["digest"] = dg
            blobs[(case["id"], j + 1)] = blob
    tf = os.path.join(work, "trace.json")
    slim = [{"id": c["id"], "backend": c["backend"], "q": c["q"], "digest": c["digest"],
             "variants": [{"how": v["how"], "q": v["q"], "digest": v["digest"]} for v in c["variants"]]} for c in cases]
    json.dump({"events": events, "cases": slim}, open(tf, "w"))
    val = common.run_tlc("VariantTrace", "VariantTrace.cfg", env={"TRACE_FILE": tf})
    unsound = val.plain("UNSOUND")
    if unsound:
        raise common.MachineryError("variant generator unsound (J3) for: %s" % unsound[:5])
    byid = {c["id"]: c for c in cases}
    pairs = 0
    for _, cid, clause, vi, how in val.plain("VERDICT"):
        c = byid[cid]
        v = c["variants"][vi - 1]
        key = "%s@%s:%s:%s=>%s" % (clause, c["backend"], how, render.compact(c["q"]),
                                   render.compact(v["q"]) if how in ("rename", "fuse", "md_mid") else how)
        if how == "rename":
            key += ":" + ",".join(_binder_names(v["q"]))
        rep.fail(key, {"clause": clause, "backend": c["backend"], "how": how, "base_query": c["src"], "variant_query": v["src"],
                       "base_package": json.loads(blobs[(cid, 0)]), "variant_package": json.loads(blobs[(cid, vi)])})
    nvar = sum(len(c["variants"]) for c in cases)
    differing = sum(1 for c in cases for v in c["variants"] if v["src"] != c["src"])
    cov = {
        "states": gen.distinct + er.distinct + val.distinct,
        "transitions": gen.generated + er.generated + val.generated,
        "traces_validated_against_impl": len(cases),
        "evaluations": nvar,
        "distinct_nontrivial": differing,
        "rule": "bases: every query of the core profile within MaxSize of MCVariants_%s.cfg (%d enumerated, %d run); variants per base: alpha-renamings "
                "from 5 hostile name pools kept when de Bruijn-equal, first fusable Where/Select chain fused, qastle wire format, MetaData outermost, "
                "call style; non-trivial = variant source text differs from the base; distinct by (base, variant)" % (tier, total, len(cases)),
        "exhaustive": total <= cap,
        "variants_by_kind": _count(cases),
        "deep_bases_from_simulation": len(deep),
        "base_outcomes": {"ok": sum(1 for c in cases if c["outcome"] == "ok"), "raise": sum(1 for c in cases if c["outcome"] != "ok")},
        "samples": [{"base": cases[0]["src"][-200:], "variant": cases[0]["variants"][0]["src"][-200:], "how": cases[0]["variants"][0]["how"]}],
    }
    return rep.finish("model_checking", cov, assumptions=[
        "packages are compared after renaming generated identifiers by order of first appearance and blanking the First() diagnostic text",
        "variant soundness (same rows, schema, requests) is re-checked by TLC on the event pool in the validation run",
    ])


def _render(q, uni, backend, style):
    if style.md_position == "outer":
        # all MetaData calls wrapped around the whole query instead of the dataset
        inner = render.render(q, uni, backend, style, md=[])
        md = [{k: v for k, v in m.items() if v != ""} for m in uni["md"][backend]]
        for m in reversed(md):
            inner = "MetaData(%s, %r)" % (inner, m)
        return inner
    return render.render(q, uni, backend, style)


def _binder_names(q):
    out = []
    if q["k"] in ("Select", "SelectMany", "Where"):
        out.append(q["a"])
    if q["k"] == "Aggregate":
        out += [q["a"], q["b"]]
    for c in q["ch"]:
        out += _binder_names(c)
    return out


def _count(cases):
    d = {}
    for c in cases:
        for v in c["variants"]:
            d[v["how"]] = d.get(v["how"], 0) + 1
    return d


def replay(path):
    r = json.load(open(path))
    work = common.scratch("verif.c08.")
    common.use_repo()
    a = _digest_one((r["base_query"], r["backend"], "ast", work, "a"))
    b = _digest_one((r["variant_query"], r["backend"], "qastle" if r["how"] == "qastle" else "ast", work, "b"))
    print("base digest %s, variant digest %s" % (a[0], b[0]))
    if a[0] != b[0]:
        print("VIOLATION property=C08 replay=%s" % path)
        return 1
    print("replay: packages agree now")
    return 0
