"""Writes /verif/MANIFEST.json from the table below and validates it against the schema."""
import json
import os
import subprocess
import sys

ROOT = os.path.dirname(os.path.dirname(os.path.abspath(__file__)))

ALL = ["C%02d" % i for i in range(1, 19)]

CLAIMED = {
    "C15": dict(
        category="model_checking",
        text="TLC explores the coded emission loop against the required behaviour (Outcome/ValidScript) for every block "
             "list in scope; every list is replayed into the real generate_script_block (a sample through the rendered "
             "ATestRun_eljob.py) and each observed (blocks, outcome, script) is validated by TLC against the same spec.",
        design_ref="DESIGN.md section 5, C15; section 2.7",
        note="Exhaustive only within the constants of spec/MCMetaBlocks_<tier>.cfg (3 names + 1 unsent, 2-3 scripts, lists <= 3) and of the Dup4 family (every list of "
             "exactly four blocks over three names with name-specific scripts and up to two dependencies each: 20 736 quick / 194 481 thorough); "
             "trusts TLC and the JSON plumbing in harness/c15.py.",
        technique="TLA+ spec MetaBlocks/MetaBlocksReq + TLC exhaustive enumeration, spec->code replay and TLC trace validation (MetaTrace)",
    ),
}

_P_NOTE = ("Bounded: queries up to the profile's MaxSize (exhaustive when under the cap, otherwise the smallest terms plus a seeded sample), "
           "events: a seeded tlc -simulate sample of EventGen plus one event per size plan (every bank empty / one / two objects / mixed / one bank missing); trusts TLC's evaluation of Denote/Schema, g++/libstdc++ as the meaning of the emitted C++, "
           "and the model experiment framework in harness/model (generated from spec/Universe.tla).")
_P_TECH = "TLA+ spec (Query/QueryGen/JobTrace) + TLC: query enumeration, replay into the real translator and compiled emitted code, TLC trace validation"


def _p(text, ref):
    return dict(category="model_checking", text=text, design_ref=ref, note=_P_NOTE, technique=_P_TECH)


CLAIMED.update({
    "C01": _p("TLC enumerates every well-typed query of the core LINQ profile within the size bound (derivation machine QueryGen), of focused profiles (tuple / dict "
              "plumbing, lambdas applied on the spot, the ATLAS jet accessors, multi-column rows, conditionals around First(), once-per-event scalars in filtered rows, inner sequences flattened inside a per-object Select) "
              "and random deep derivations over the union of the features; each is translated by the real "
              "code on the three backends, the emitted C++ is compiled unmodified against a model data model and run on TLC-generated events; TLC validates every "
              "observed event (rows, faults) against Denote(q, e).", "DESIGN.md section 5 C01, sections 2-3"),
    "C02": _p("Same enumeration (core, schema, fault, multi-column row, C++-function and random deep profiles): every accepted query's package must be complete (files, executable entry script, no unrendered directive) and "
              "its C++ must compile and link against the model data model and book exactly one tree; judged by TLC on the logged results.", "DESIGN.md section 5 C02"),
    "C03": _p("TLC enumerates all terminal forms x element kinds, with implicit and explicit (AsROOTTTree, right and wrong label counts) trees; the branch list logged by the "
              "model TTree (names, C++ types, storage identity) and the returned descriptor are validated by TLC against Schema(q); rows confirm the bound storage is what gets filled; "
              "rows holding several aggregates and literals side by side check that every column keeps its own kind whatever its neighbours are.",
              "DESIGN.md section 5 C03"),
    "C04": _p("TLC enumerates partial operations (First, index, link dereference, null smart references behind the CMS isNonnull guard, missing bank) under and outside guards "
              "(and / or / conditional / Where, with distinct values in the arms); per event the job must fault exactly when Denote(q, e) "
              "is a fault, and otherwise write exactly the denoted rows (lazy and/or/conditional/Where in the specification).", "DESIGN.md section 5 C04"),
    "C05": _p("Every case is run over event histories (singletons in fresh job instances, permutations, reversed and shuffled sequences in one instance); TLC's trace spec has no "
              "inter-event state and its reference-free clause StateCarried requires each event's rows in any history to equal its rows alone.", "DESIGN.md section 5 C05"),
    "C13": _p("TLC enumerates the operator x operand-kind table exhaustively (plus a sampled wider arithmetic profile and a profile of conditionals as columns and inside "
              "Aggregate bodies, and every small integer-valued expression divided by / dividing an integer constant); values and column kinds computed by the compiled job are "
              "validated by TLC against exact-rational Python numerics (Values.tla).", "DESIGN.md section 5 C13"),
})

CLAIMED["C07"] = dict(
    category="model_checking",
    text="TLC checks the lifecycle machine (required: pristine at every apply; the as-implemented instantiation yields the shortest leaking histories) and enumerates "
         "every history of operations up to two (three-operation histories by simulation in the thorough tier); each is replayed with real executors in a process forked "
         "from a pristine parent, then fifteen probe queries are translated and TLC requires each probe's normalised package to equal its fresh-process package.",
    design_ref="DESIGN.md section 5 C07, section 2.6",
    note="128 operations (8 metadata kinds: method type, a method of a class with built-in defaults, enum, inject / job-script blocks, extended metadata, a collection replacing a built-in plus a new one, a C++ function, none x 4 outcomes x 4 executors: same, another, CMS AOD, CMS miniAOD); quick: every history of <= 1 operation and a seeded sample of 2 600 of the 16 513 of length <= 2; thorough: all of those plus simulated histories of 3; fifteen probes (incl. one transformed tree written twice, backend-default method types on both CMS backends, an undeclared collection / function) sensitive to method types, default types, enums, template directories, a second translation of the same object, "
         "blocks, extended metadata, other backend; comparison after renaming generated identifiers.",
    technique="TLA+ spec Lifecycle + TLC history enumeration, replay in forked real processes, TLC trace validation (LifecycleTrace, memo form)",
)

CLAIMED["C08"] = dict(
    category="model_checking",
    text="TLC enumerates base queries (exhaustively to the size bound, plus seeded -simulate derivations deep enough for shadowing to matter, plus the written-out family spec/MCSiblings.tla of lambdas holding several sibling lambdas inside chained steps) and derives their "
         "variants: alpha-renamings from hostile name pools (kept only when de Bruijn forms agree), fused Where/Select chains, qastle wire format, MetaData "
         "outermost, call style. Base and variant are translated by the real code in fresh forks; TLC re-checks that each variant denotes the same rows and "
         "requires the name-normalised packages to be equal.",
    design_ref="DESIGN.md section 5 C08",
    note="Fusions are restricted to chains sitting on a plain source and to linear Select bodies (otherwise the fused query is an equivalent but legitimately "
         "different program); comparison after renaming generated identifiers and blanking the First() diagnostic text.",
    technique="TLA+ spec Variants (de Bruijn alpha-equivalence, fusion) + TLC enumeration/simulation, replay into the real translator, TLC trace validation (VariantTrace)",
)

CLAIMED["C09"] = dict(
    category="model_checking",
    text="TLC enumerates base queries and grafts every unsupported construct of the property's list (unknown operators, comparison chains, unimplemented Aggregate "
         "forms, slices, arithmetic on sequences, raw objects, values used as sequences, getAttribute, malformed / unknown / foreign metadata incl. a key only another experiment's "
         "declaration knows, First(predicate), surplus arguments, C++ function calls with one argument too many / too few or in the other call style, collection calls with "
         "the wrong number or type of arguments) at every live position; each graft is sent to the real translator and TLC (JobTrace, clause Refuses) requires that it raised.",
    design_ref="DESIGN.md section 5 C09",
    note="Grafts are placed only where the grafted value is used by the rest of the query (dead positions are MAY); any exception counts as a refusal; wrong label counts "
         "for AsROOTTTree are covered under C03.",
    technique="TLA+ spec Grafts (graft positions with liveness) + TLC enumeration, replay into the real translator, TLC trace validation (JobTrace.Refuses)",
)

CLAIMED["C12"] = dict(
    category="model_checking",
    text="The documented function list is a TLA+ constant transcribed from README.md; TLC enumerates every function standalone (all argument tuples over constants and "
         "a method value) and, sampled, inside arithmetic, comparisons and other calls; the compiled job's values are validated by TLC against a reference table built "
         "at check time from the C library function of each documented name.",
    design_ref="DESIGN.md section 5 C12",
    note="TLC cannot compute transcendental functions: the table (libm via a generated C program, harness/mathtable.py) is the trusted numeric oracle, TLC does enumeration, "
         "lookup and comparison on a 1/1000 grid; nan() and remquo() take a string / a pointer and cannot be called from a query (MAY, not generated).",
    technique="TLA+ spec (QueryGen math profile, Query.MathApply) + TLC enumeration, replay into translator and compiled code, TLC trace validation against a libm reference table",
)

CLAIMED["C16"] = dict(
    category="fault_enumeration",
    text="TLC explores the Runner machine (invocation sequences x flags, required exit class / destination contents) and exports every sequence; each is replayed with "
         "the real rendered runner.sh of the three backends, unmodified, in a private user+mount namespace with stub tools, once fault-free and once per external "
         "command of its last invocation with that command failing (the job and the conversion also failing LATE: after writing their output); TLC (RunnerTrace) validates every observed invocation: exit codes, no success and no fresh output "
         "(no created, truncated or re-stamped file, by modification time / size / digest) after a failure in a named step, this run's output from exactly the requested inputs at the target on exit 0, -c quiet, other destinations untouched.",
    design_ref="DESIGN.md section 5 C16, section 2.8, section 3.1",
    note="Sequences up to length 2 (quick) / 3 (thorough); single failures only; external tools are stubs (harness/stubs) that log, fail on request and do the minimum the "
         "next step needs; outcomes the property leaves open (-c -r together, compiling twice in one directory, incidental command failures) are only held to "
         "'exit 0 => this run's output is delivered'.",
    technique="TLA+ spec Runner/RunnerReq + TLC sequence enumeration, fault injection at every discovered command of the real scripts in a namespace sandbox, TLC trace validation (RunnerTrace)",
)

CLAIMED["C17"] = dict(
    category="model_checking",
    text="TLC enumerates every scenario of the LocalRun machine (file configurations, docker metadata, output directory, backend, translation outcome, container "
         "outcome incl. failure after k output chunks and a missing result file, and what the same dataset object executed before: nothing, a query with docker "
         "metadata that ran, one that failed) and checks the design-level ordering facts; each scenario is executed in a fresh "
         "interpreter with the real LocalDataset classes against a stand-in python_on_whales; TLC (LocalRunTrace) validates exception-or-result, the docker.run "
         "arguments (image, command, mounts), filelist.txt, pre-flight errors before any container, and removal of the temporary directory.",
    design_ref="DESIGN.md section 5 C17, section 2.9",
    note="12 000 scenarios (10 file configurations incl. a file named twice), all of them in the thorough tier, 2 800 in the quick tier (every scenario without an earlier use and with docker metadata absent or alone, plus a seeded sample of the others); in the real_runner scenarios the container is the C16 namespace sandbox running the generated package's own runner.sh (machines M4 and M5 composed: the result returned to the caller must list exactly the dataset's files as the job's inputs); otherwise python_on_whales is a stand-in (harness/fake_pkgs), docker itself is not exercised; TMPDIR is redirected to observe leftovers.",
    technique="TLA+ spec LocalRun/LocalRunReq + TLC scenario enumeration, replay through the real LocalDataset with a stand-in docker, TLC trace validation (LocalRunTrace)",
)

CLAIMED["C14"] = dict(
    category="model_checking",
    text="TLC explores the block-ingestion loop as coded against the required behaviour (Outcome: conflict / unknown field => error; Slots: per field, the lines of "
         "each distinct block in arrival order) for every block list in scope and exports the lists; each is sent as inject_code metadata through the real executor; "
         "the rendered ATLAS files are split into structural regions (include areas, class body, ctor initialiser list, ctor body, initialize(), LINK_LIBRARIES, "
         "everything else) and TLC (InjectTrace) requires every region to contain exactly the slots of its field, text unaltered (incl. template-special text); on "
         "CMS the body includes are checked.",
    design_ref="DESIGN.md section 5 C14, section 2.7",
    note="Lists up to 2 (quick) / 3 (thorough) blocks over 2 names x 8 shapes x unknown-field flag; regions are located by fixed template text; the probe-compile "
         "cross-check of DESIGN section 5 is not built.",
    technique="TLA+ spec Inject/MCInject + TLC enumeration, replay through the real executor and templates, TLC trace validation (InjectTrace)",
)

CLAIMED["C06"] = _p("TLC enumerates, per backend, queries over every collection of that backend's table (incl. a singleton and, through metadata, a newly declared collection and "
                    "a declaration replacing a built-in) x banks (two with different contents, one absent from every event) x one or two uses; the model store logs every "
                    "retrieval. TLC validates rows (wrong / swapped bank or type => different rows), loud failure on a missing bank, admissible (container type, bank) "
                    "requests, the link libraries in the rendered CMake file, and on miniAOD the tokens (declared+initialised with exactly the used tags); malformed collection "
                    "declarations (missing / spurious element type, unknown key, a key only another experiment knows, another experiment's declaration) and collection "
                    "calls with the wrong number or type of arguments must be refused.",
                    "DESIGN.md section 5 C06")

CLAIMED["C11"] = _p("The spec carries a table of C++ functions (spec/Fns.tla) with known asymmetric meanings whose parameter names collide on purpose with method names used "
                    "in actual arguments, with each other as prefixes, and with the result name; function, method and collection-returning styles, a renamed result, an "
                    "include file that the code needs. TLC enumerates every function x actual-argument tuple (incl. nested calls); the compiled job's values are validated "
                    "by TLC against the function's meaning, so a captured, swapped or half-substituted argument, a lost include or a wrongly scoped result shows up as a "
                    "compile error or wrong value; calls with one argument too many / too few or in the other call style (grafts of spec/Grafts.tla) must be refused; "
                    "a call bound once by a lambda applied on the spot and used several times, first inside a conditional, must be computed where every use sees it.", "DESIGN.md section 5 C11")

CLAIMED["C18"] = _p("TLC enumerates the literal space (integers by magnitude class up to beyond 2^64, floats in every notation Python's repr produces incl. subnormal, largest "
                    "finite and inf, booleans, strings of length 1-3 over quote, backslash, newline, percent, non-ASCII, brace, space, apostrophe) x positions (output value, "
                    "bank name, tree name, column name). The model job logs the exact text of every scalar it writes, the bank strings it asks for and the names it books; "
                    "TLC requires them to equal the literal (or the literal to be refused when it is not representable).", "DESIGN.md section 5 C18")

CLAIMED["C10"] = _p("The universe table declares a signature space on the model classes - object returned by value / pointer / double pointer, collection by value and by "
                    "pointer, collections of objects, smart references needing 1 and 2 extra dereferences (deref_count), a scalar type with a declared tree type, an enum "
                    "(as output, in a comparison with a qualified value, as an argument) - and the model C++ classes are generated from the very same table, so the C++ "
                    "compiler judges every '.', '->', '(*x)->' the translator emits. TLC enumerates all call chains / uses over these methods; compile result, values, "
                    "column types and the 'assuming double' warning (logged iff an undeclared method is called) are validated by TLC.", "DESIGN.md section 5 C10")

PENDING = "check not built yet in this round (planned, see DESIGN.md section 11); not claimed until its machinery exists"


def main():
    checks = []
    for pid in ALL:
        if pid not in CLAIMED:
            continue
        c = CLAIMED[pid]
        checks.append({
            "property_id": pid,
            "quick_cmd": "./check %s --tier quick" % pid,
            "thorough_cmd": "./check %s --tier thorough" % pid,
            "evidence_file": "evidence/%s.json" % pid,
            "replay_cmd_template": "./check %s --replay {path}" % pid,
            "engine": "tlc",
            "level_claimed": {"category": c["category"], "text": c["text"], "design_ref": c["design_ref"]},
            "level_note": c["note"],
            "technique": c["technique"],
        })
    m = {
        "version": 1,
        "setup_cmd": "./setup.sh",
        "hooks": {
            "guard": "FUNC_ADL_XAOD_VERIF",
            "enable": "no in-repo hooks: the checks import /repo's working tree directly and observe it through its public API, "
                      "a model experiment framework and stub tools; the variable is set by the harness only",
            "baseline_off_cmd": "cd /repo && /venv/bin/python -m pytest -ra -q -p no:cacheprovider --timeout=900 --continue-on-collection-errors",
            "source_commits": [],
            "add_only": True,
        },
        "engines": [
            {"name": "tlc", "path": "spec/", "serves_properties": sorted(CLAIMED),
             "kind_free_text": "TLA+ specifications checked with TLC 1.8; harness/ replays TLC-generated cases into the real code "
                               "and feeds recorded traces back to TLC"},
        ],
        "checks": checks,
        "notes": "Model-based verification with explicit TLA+ specifications; see DESIGN.md.",
        "not_applicable": [{"property_id": p, "reason": PENDING} for p in ALL if p not in CLAIMED],
    }
    path = os.path.join(ROOT, "MANIFEST.json")
    with open(path, "w") as f:
        json.dump(m, f, indent=1)
    p = subprocess.run(["python3-vt", "-c",
                        "import json,jsonschema,sys; jsonschema.validate(json.load(open(sys.argv[1])), json.load(open('/root/.vp/MANIFEST.schema.json'))); print('manifest valid')",
                        path])
    return p.returncode


if __name__ == "__main__":
    sys.exit(main())
