#!/bin/sh
# seed_regress.sh [seed-name ...]: re-run, for every recorded seeded change, the check of its own property against
# a scratch tree (HEAD of /repo + the change).  One line per seed: CAUGHT / MISSED / NOAPPLY.
# Runs from a snapshot of /verif so that the working copy may be edited meanwhile.
here="$(cd "$(dirname "$0")/.." && pwd)"
snap=$(mktemp -d /tmp/verif.regress.XXXXXX)
cp -r "$here/." "$snap/"
names="$*"
[ -n "$names" ] || names=$(ls "$here/seeded")
for name in $names; do
  d="$here/seeded/$name"
  prop=$(python3 -c "import json,sys; print(json.load(open('$d/meta.json'))['property'])")
  wt=$(mktemp -d /tmp/verif.seedtree.XXXXXX); rmdir "$wt"
  git -C /repo worktree add --detach "$wt" HEAD -q 2>/dev/null
  if ! git -C "$wt" apply "$d/patch.diff" 2>/dev/null; then
    echo "$name $prop NOAPPLY"
  else
    out=$(TAILN=1 "$snap/harness/seedrun.sh" "$wt" "$prop" quick 2>&1 | tail -1)
    case "$out" in
      *" 0 violation(s)"*) echo "$name $prop MISSED   $out" ;;
      *"violation(s)"*)    echo "$name $prop CAUGHT   $out" ;;
      *)                   echo "$name $prop ERROR    $out" ;;
    esac
  fi
  git -C /repo worktree remove --force "$wt" 2>/dev/null
done
rm -rf "$snap"
