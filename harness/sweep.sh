#!/bin/sh
# seed sweep of the quick checks: prints one line per (check, seed); used to find seed-dependent alarms
cd "$(dirname "$0")/.."
./setup.sh >/dev/null 2>&1
for sd in ${SEEDS:-1 2 3 4}; do
  for c in ${CHECKS:-C01 C02 C03 C04 C05 C07 C08 C13 C15}; do
    out=$(VERIF_SEED=$sd ./check $c --tier ${TIER:-quick} 2>&1)
    rc=$?
    echo "seed=$sd $c rc=$rc $(echo "$out" | tail -1)"
    if [ $rc -ne 0 ]; then echo "$out" | grep -E "key=|MACHINERY" | head -8; fi
  done
done
