"""./check selftest - binding sensitivity of the trace specifications.

For every trace spec: record a small genuine trace from the real code, check that TLC accepts
it, then corrupt ONE logged field (a cell, a branch type, a requested bank, a fault flag, an
exit code, a digest, a script line, an injected text, a docker argument) or drop one record, and
require that TLC rejects it with the expected clause.  A trace spec that accepts a corrupted
trace is not bound to the code."""
import copy
import json
import os
import sys

import common


def _tlc_verdicts(module, cfg, obj, tag="VERDICT"):
    work = common.scratch("verif.self.")
    tf = os.path.join(work, "t.json")
    json.dump(obj, open(tf, "w"))
    r = common.run_tlc(module, cfg, env={"TRACE_FILE": tf}, workers=2)
    return r.plain(tag)


def _expect(name, verdicts, clause, results):
    ok = any(clause in [str(x) for x in v] for v in verdicts)
    results.append((name, clause, ok))
    print("  %-58s %-26s %s" % (name, clause, "rejected (ok)" if ok else "ACCEPTED - binding broken"))


def _expect_clean(name, verdicts, results):
    ok = not verdicts
    results.append((name, "accepts genuine trace", ok))
    print("  %-58s %-26s %s" % (name, "-", "accepted (ok)" if ok else "REJECTED: %s" % verdicts[:3]))


def job_trace(results):
    import mockbuild
    import pipeline
    import render
    mockbuild.build_all()
    uni = mockbuild.universe()

    def T(k, a="", b="", n=0, d=1, ch=()):
        return {"k": k, "a": a, "b": b, "n": n, "d": d, "ch": list(ch)}
    jets = T("Coll", "A", "bk1", ch=[T("Var", "e")])
    q = T("Select", "e", ch=[T("DS"), T("Tuple", n=2, ch=[T("Select", "j", ch=[jets, T("Meth", "pt", ch=[T("Var", "j")])]),
                                                         T("Count", ch=[jets])])])
    events, _ = pipeline.generate_events(6, seed=3)
    cases = [{"id": 1, "backend": b, "q": q, "support": "MUST_ACCEPT", "src": render.render(q, uni, b)} for b in ("atlas",)]
    seqs = [[i + 1] for i in range(len(events))] + [list(range(1, len(events) + 1))]
    recs = pipeline.run_cases(cases, events, seqs, procs=1)

    def slim(rs):
        return {"events": events, "math": {}, "cases": [
            {k: r[k] for k in ("id", "backend", "q", "support", "compile", "runs")} | {"declv": "none"} |
            {"translate": {k: r["translate"][k] for k in ("outcome", "exc", "treename", "filename", "files", "residual")} |
                          {"libs": r["translate"]["libs"], "nwarn": 0, "checkwarn": False}} for r in rs]}
    print("JobTrace")
    _expect_clean("genuine trace (tuple of vector and count, 1 history)", _tlc_verdicts("JobTrace", "JobTrace.cfg", slim(recs)), results)
    # find an event with a non-empty vector cell
    tgt = None
    for ri, run in enumerate(recs[0]["runs"]):
        for ei, ev in enumerate(run["events"]):
            if ev["rows"] and ev["rows"][0][0]["v"]:
                tgt = (ri, ei)
                break
        if tgt:
            break
    if tgt is None:
        raise common.MachineryError("selftest: no event with a non-empty vector in the sample")
    ri, ei = tgt
    c = copy.deepcopy(recs)
    c[0]["runs"][ri]["events"][ei]["rows"][0][0]["v"][0]["s"] += 500
    _expect("one cell changed by 0.5", _tlc_verdicts("JobTrace", "JobTrace.cfg", slim(c)), "RowsMatch", results)
    c = copy.deepcopy(recs)
    c[0]["runs"][ri]["events"][ei]["rows"] = []
    _expect("one row dropped", _tlc_verdicts("JobTrace", "JobTrace.cfg", slim(c)), "RowsMatch", results)
    c = copy.deepcopy(recs)
    c[0]["runs"][ri]["events"][ei]["fault"] = "exception:x"
    _expect("a fault logged where rows are denoted", _tlc_verdicts("JobTrace", "JobTrace.cfg", slim(c)), "SpuriousFault", results)
    c = copy.deepcopy(recs)
    c[0]["runs"][0]["booked"]["trees"][0]["branches"][1]["type"] = "double"
    _expect("branch type int -> double", _tlc_verdicts("JobTrace", "JobTrace.cfg", slim(c)), "SchemaMatches", results)
    c = copy.deepcopy(recs)
    c[0]["runs"][0]["booked"]["trees"][0]["branches"][1]["slot"] = 1
    _expect("two branches bound to one storage", _tlc_verdicts("JobTrace", "JobTrace.cfg", slim(c)), "StorageDistinct", results)
    c = copy.deepcopy(recs)
    c[0]["runs"][ri]["events"][ei]["requests"] = [["xAOD::JetContainer", "bk2"]]
    _expect("request for another bank", _tlc_verdicts("JobTrace", "JobTrace.cfg", slim(c)), "RequestsAdmissible", results)
    c = copy.deepcopy(recs)
    c[0]["translate"]["treename"] = "other_tree"
    _expect("descriptor names another tree", _tlc_verdicts("JobTrace", "JobTrace.cfg", slim(c)), "DescriptorMatches", results)
    c = copy.deepcopy(recs)
    c[0]["compile"]["ok"] = False
    _expect("compile failure logged", _tlc_verdicts("JobTrace", "JobTrace.cfg", slim(c)), "Compiles", results)
    # a stateful job: in the long history, repeat the previous event's rows
    c = copy.deepcopy(recs)
    hist = c[0]["runs"][-1]["events"]
    changed = False
    for i in range(1, len(hist)):
        if hist[i]["rows"] != hist[i - 1]["rows"]:
            hist[i]["rows"] = copy.deepcopy(hist[i - 1]["rows"])
            changed = True
            break
    if changed:
        _expect("rows carried over from the previous event", _tlc_verdicts("JobTrace", "JobTrace.cfg", slim(c)), "StateCarried", results)


def meta_trace(results):
    print("MetaTrace")
    bl = [{"name": "a", "script": ["x"], "deps": ["b"]}, {"name": "b", "script": ["x", "y"], "deps": []}]
    good = [{"blocks": bl, "outcome": "ok", "script": ["x", "y", "x"], "via": "function"}]
    _expect_clean("genuine record", _tlc_verdicts("MetaTrace", "MetaTrace.cfg", good), results)
    bad = copy.deepcopy(good)
    bad[0]["script"] = ["x", "x", "y"]
    _expect("dependency emitted after its dependent", _tlc_verdicts("MetaTrace", "MetaTrace.cfg", bad), "ValidScript", results)
    bad = copy.deepcopy(good)
    bad[0]["script"] = ["x", "y"]
    _expect("a block dropped", _tlc_verdicts("MetaTrace", "MetaTrace.cfg", bad), "ValidScript", results)
    bad = copy.deepcopy(good)
    bad[0]["outcome"] = "ValueError"
    _expect("error reported for a valid list", _tlc_verdicts("MetaTrace", "MetaTrace.cfg", bad), "ScriptOutcome", results)


def lifecycle_trace(results):
    print("LifecycleTrace")
    good = [{"hid": 0, "hlen": 0, "probe": "p", "digest": "aa", "outcome": "ok", "exc": ""},
            {"hid": 1, "hlen": 2, "probe": "p", "digest": "aa", "outcome": "ok", "exc": ""}]
    _expect_clean("genuine records", _tlc_verdicts("LifecycleTrace", "LifecycleTrace.cfg", good), results)
    bad = copy.deepcopy(good)
    bad[1]["digest"] = "ab"
    _expect("digest differs after a history", _tlc_verdicts("LifecycleTrace", "LifecycleTrace.cfg", bad), "OutputIsFunctionOfQuery", results)


def runner_trace(results):
    print("RunnerTrace")
    d1 = [{"path": "/results/ANALYSIS.root", "run": "1", "inputs": ["/data/default1.root", "/data/default2.root"], "converted": False, "ident": "1:10:aa"}]
    good = [{"script": "atlas", "invs": [
        {"kind": "full", "d": "", "o": "default", "fault_at": 0, "cls": "none", "exit": 0, "dests": d1},
        {"kind": "run", "d": "/data/x.root", "o": "default", "fault_at": 3, "cls": "job", "exit": 1, "dests": d1}]}]
    _expect_clean("genuine sequence (build+run, then failing -r)", _tlc_verdicts("RunnerTrace", "RunnerTrace.cfg", good), results)
    bad = copy.deepcopy(good)
    bad[0]["invs"][1]["exit"] = 0
    _expect("exit 0 after a failed job", _tlc_verdicts("RunnerTrace", "RunnerTrace.cfg", bad), "NoSuccessAfterFault", results)
    bad = copy.deepcopy(good)
    bad[0]["invs"][0]["dests"][0]["inputs"] = ["/data/default1.root"]
    _expect("delivered output made from other inputs", _tlc_verdicts("RunnerTrace", "RunnerTrace.cfg", bad), "DeliversThisRun", results)
    bad = copy.deepcopy(good)
    bad[0]["invs"][1]["dests"] = [dict(d1[0], run="2")]
    _expect("fresh output after a failed step", _tlc_verdicts("RunnerTrace", "RunnerTrace.cfg", bad), "NoFreshOutputAfterFault", results)
    bad = copy.deepcopy(good)
    bad[0]["invs"][1]["dests"] = [dict(d1[0], ident="2:10:aa")]
    _expect("old output re-stamped by a failed run", _tlc_verdicts("RunnerTrace", "RunnerTrace.cfg", bad), "NoFreshOutputAfterFault", results)
    bad = copy.deepcopy(good)
    bad[0]["invs"][1]["dests"] = d1 + [{"path": "/out2/custom.root", "run": "", "inputs": [], "converted": False, "ident": "2:0:da"}]
    _expect("empty file created by a failed run", _tlc_verdicts("RunnerTrace", "RunnerTrace.cfg", bad), "NoFreshOutputAfterFault", results)


def inject_trace(results):
    print("InjectTrace")
    blocks = [{"name": "x", "shape": "allAB", "bad": False}, {"name": "y", "shape": "shared", "bad": False}]
    regions = {"cc_includes": ["vp_body_A.h", "vp_body_B.h", "vp_shared.h"]}
    good = [{"blocks": blocks, "backend": "cms_aod", "outcome": "ok", "regions": regions}]
    _expect_clean("genuine record (two blocks, CMS body includes)", _tlc_verdicts("InjectTrace", "InjectTrace.cfg", good), results)
    bad = copy.deepcopy(good)
    bad[0]["regions"]["cc_includes"] = ["vp_body_A.h", "vp_body_B.h"]
    _expect("an injected include missing from its region", _tlc_verdicts("InjectTrace", "InjectTrace.cfg", bad), "SlotsExact:cc_includes", results)
    bad = copy.deepcopy(good)
    bad[0]["regions"]["cc_includes"] = ["vp_body_B.h", "vp_body_A.h", "vp_shared.h"]
    _expect("two injected lines swapped", _tlc_verdicts("InjectTrace", "InjectTrace.cfg", bad), "SlotsExact:cc_includes", results)
    bad = copy.deepcopy(good)
    bad[0]["outcome"] = "ValueError"
    _expect("error reported for an acceptable list", _tlc_verdicts("InjectTrace", "InjectTrace.cfg", bad), "BlockOutcome", results)


def localrun_trace(results):
    print("LocalRunTrace")
    sc = {"backend": "cms_aod", "files": "two_same_dir", "md": "absent", "outdir": "given", "translation": "ok",
          "container": "ok_result", "prior": "none"}
    call = {"image": "vp/dataset-image:tag1", "command": ["/scripts/runner.sh"],
            "mounts": [{"host": "/t/pkg", "point": "/scripts", "mode": "rw"}, {"host": "/t/pkg", "point": "/results", "mode": "rw"},
                       {"host": "/d", "point": "/data", "mode": "ro"}],
            "remove": True, "stream": True, "filelist": ["/data/f1.root", "/data/f2.root"], "data_dir_is_files_dir": True}
    good = [{"sc": sc, "raised": False, "exc": "", "calls": [call], "returned": True, "returned_in_outdir": True,
             "result_is_containers": True, "tmp_left": [], "pkg_dir_is_tmp": True, "e2e_inputs": ["<none>"]}]
    _expect_clean("genuine record", _tlc_verdicts("LocalRunTrace", "LocalRunTrace.cfg", good), results)
    rep = copy.deepcopy(good)
    rep[0]["sc"] = dict(sc, files="repeat_aba", container="real_runner")
    rep[0]["calls"][0]["filelist"] = ["/data/f1.root", "/data/f2.root", "/data/f1.root"]
    rep[0]["e2e_inputs"] = ["/data/f1.root", "/data/f2.root", "/data/f1.root"]
    _expect_clean("genuine record (a file named twice, real runner)", _tlc_verdicts("LocalRunTrace", "LocalRunTrace.cfg", rep), results)
    bad = copy.deepcopy(rep)
    bad[0]["calls"][0]["filelist"] = ["/data/f1.root", "/data/f2.root"]
    _expect("a repeated file listed once", _tlc_verdicts("LocalRunTrace", "LocalRunTrace.cfg", bad), "FilelistExact", results)
    bad = copy.deepcopy(rep)
    bad[0]["e2e_inputs"] = ["/data/f1.root", "/data/f2.root"]
    _expect("the job inside the container worked on other inputs", _tlc_verdicts("LocalRunTrace", "LocalRunTrace.cfg", bad), "ReturnsResult", results)
    for name, clause, f in [
            ("another image", "RightImage", lambda r: r["calls"][0].__setitem__("image", "vp/other:1")),
            ("file list in another order", "FilelistExact", lambda r: r["calls"][0].__setitem__("filelist", ["/data/f2.root", "/data/f1.root"])),
            ("data mounted writable", "RightVolumes", lambda r: r["calls"][0]["mounts"][2].__setitem__("mode", "rw")),
            ("another command", "RightCommand", lambda r: r["calls"][0].__setitem__("command", ["/scripts/other.sh"])),
            ("temporary directory left behind", "TempRemoved", lambda r: r.__setitem__("tmp_left", ["x"])),
            ("an error raised where none is due", "ErrorPropagates", lambda r: r.__setitem__("raised", True)),
            ("two containers started", "OneContainer", lambda r: r["calls"].append(copy.deepcopy(r["calls"][0])))]:
        bad = copy.deepcopy(good)
        f(bad[0])
        _expect(name, _tlc_verdicts("LocalRunTrace", "LocalRunTrace.cfg", bad), clause, results)


def variant_trace(results):
    print("VariantTrace")

    def T(k, a="", b="", n=0, d=1, ch=()):
        return {"k": k, "a": a, "b": b, "n": n, "d": d, "ch": list(ch)}
    jets = T("Coll", "A", "bk1", ch=[T("Var", "e")])
    q = T("Select", "e", ch=[T("DS"), T("Select", "j", ch=[jets, T("Meth", "pt", ch=[T("Var", "j")])])])
    q2 = T("Select", "e", ch=[T("DS"), T("Select", "x", ch=[jets, T("Meth", "pt", ch=[T("Var", "x")])])])
    import pipeline
    events, _ = pipeline.generate_events(3, seed=3)
    good = {"events": events, "cases": [{"id": 1, "backend": "atlas", "q": q, "digest": "aa",
                                         "variants": [{"how": "rename", "q": q2, "digest": "aa"}]}]}
    _expect_clean("genuine record (a renaming, equal digests)", _tlc_verdicts("VariantTrace", "VariantTrace.cfg", good), results)
    bad = copy.deepcopy(good)
    bad["cases"][0]["variants"][0]["digest"] = "ab"
    _expect("variant package differs", _tlc_verdicts("VariantTrace", "VariantTrace.cfg", bad), "SameUpToNames", results)


def main():
    results = []
    job_trace(results)
    meta_trace(results)
    lifecycle_trace(results)
    runner_trace(results)
    inject_trace(results)
    localrun_trace(results)
    variant_trace(results)
    bad = [r for r in results if not r[2]]
    print("selftest: %d checks, %d failed" % (len(results), len(bad)))
    return 1 if bad else 0


def run(tier):
    return main()
