"""The pipeline-P property checks (which profile, which clauses)."""
import pcheck

SPECS = {
    "C01": pcheck.PSpec(
        "C01",
        clauses=["Accepts", "RowsMatch", "SpuriousFault"],
        profiles={"quick": [("MCQueryGen_core.cfg", None)],
                  "thorough": [("MCQueryGen_core_t.cfg", None)]},
        cap={"quick": 900, "thorough": 12000},
    ),
}


def make(prop):
    spec = SPECS[prop]

    class M:
        @staticmethod
        def run(tier):
            return pcheck.run(spec, tier)

        @staticmethod
        def replay(path):
            return pcheck.replay(spec, path)
    return M
