"""The pipeline-P property checks (which profile, which clauses)."""
import pcheck


def _ROWS(t):
    "multi-column rows: columns produced in different blocks; one value feeding several columns"
    sfx = "" if t == "quick" else "_t"
    return [("MCQueryGen_rows%s.cfg" % sfx, None, {"cap": {"quick": 240, "thorough": 1100}}),
            ("MCQueryGen_rowsn%s.cfg" % sfx, None, {"cap": {"quick": 240, "thorough": 1500}})]


def _IFFIRST(t):
    "conditionals with First() in the test / an arm, distinct constants in the arms"
    return [("MCQueryGen_iffirst%s.cfg" % ("" if t == "quick" else "_t"), None, {"cap": {"quick": 300, "thorough": 1500}})]


# several aggregates and plain literals side by side in one row (a floating Sum, a Count, a 0)
_AGGROWS = [("MCQueryGen_aggrows.cfg", None, {"cap": {"quick": 160, "thorough": 160}})]

# columns whose element type is fixed by a declaration (tree type, enum, bool, float) as elements of vector columns
_TREETYPES = [("MCQueryGen_treetypesvec.cfg", None, {"md10": True, "cap": {"quick": 150, "thorough": 1200}})]


# a scalar computed once per event written bare as a column of rows from a filtered sequence
_LETROWS = [("MCQueryGen_letrows.cfg", None, {"cap": {"quick": 320, "thorough": 320}})]


# list / list-of-lists columns whose inner sequence is flattened (SelectMany) inside a per-object Select
_INNERMANY = [("MCQueryGen_innermany.cfg", None, {"cap": {"quick": 200, "thorough": 400}})]


def _ALL(t, n):
    """random deep derivations over the union of the features (simulation); the simulation seeds are FIXED - their alarms
    were triaged (DESIGN 13.2): one seed in the quick tier, five in the thorough tier"""
    seeds = (0,) if t == "quick" else (0, 1, 2, 3, 4)
    return [("MCQueryGen_all.cfg", {"num": 2500}, {"fnmd": True, "fixedseed": sd, "cap": {"quick": n, "thorough": n}}) for sd in seeds]


def _NONNULL(cfg):
    "the CMS-only isNonnull(ref) guard profile, on both CMS backends"
    return [(cfg, None, {"backend": b, "md10": True, "cap": {"quick": 120, "thorough": 1400}}) for b in ("cms_aod", "cms_miniaod")]


# calls of supplied (and built-in) C++ functions with one argument too many / too few or in the other call style
_BADCALLS = ("MCGrafts_userfn.cfg", None, {"fnmd": True, "grafts": ("userfn_", "builtin_fn_"), "cap": {"quick": 300, "thorough": 1200}})


def _INTDIV(t):
    "every small integer-valued expression divided by an integer constant / dividing one (the C++ type it really has decides)"
    sfx = "" if t == "quick" else "_t"
    return [("MCQueryGen_intdiv%s.cfg" % sfx, None, {"backend": "atlas", "cap": {"quick": 600, "thorough": 1500}}),
            ("MCQueryGen_intrdiv%s.cfg" % sfx, None, {"backend": "cms_aod", "cap": {"quick": 300, "thorough": 1500}})]


def _first_math(t):
    if t["k"] == "Math":
        return t["a"]
    for c in t["ch"]:
        r = _first_math(c)
        if r:
            return r
    return ""

SPECS = {
    "C01": pcheck.PSpec(
        "C01",
        clauses=["Accepts", "RowsMatch", "SpuriousFault", "Compiles", "BookingFault"],
        profiles={"quick": [("MCQueryGen_core.cfg", None), ("MCQueryGen_tuples.cfg", None),
                            ("MCQueryGen_let.cfg", None, {"cap": {"quick": 260, "thorough": 1500}}),
                            ("MCQueryGen_moments.cfg", None, {"backend": "atlas", "cap": {"quick": 160, "thorough": 1000}})] + _ROWS("quick") + _IFFIRST("quick") + _LETROWS + _INNERMANY + _ALL("quick", 300),
                  "thorough": [("MCQueryGen_core_t.cfg", None), ("MCQueryGen_tuples_t.cfg", None), ("MCQueryGen_fault.cfg", None),
                               ("MCQueryGen_let_t.cfg", None, {"cap": {"quick": 260, "thorough": 1500}}),
                               ("MCQueryGen_moments_t.cfg", None, {"backend": "atlas", "cap": {"quick": 160, "thorough": 1000}})] + _ROWS("thorough") + _IFFIRST("thorough") + _LETROWS + _INNERMANY + _ALL("thorough", 300)},
        cap={"quick": 2800, "thorough": 9000},
    ),
    "C02": pcheck.PSpec(
        "C02",
        clauses=["PackageComplete", "NoResidualDirective", "Compiles", "BookingFault", "OneTree"],
        profiles={"quick": [("MCQueryGen_core.cfg", None), ("MCQueryGen_schema.cfg", None), ("MCQueryGen_fault.cfg", None)] + _ROWS("quick")
                           + [("MCQueryGen_userfn_e.cfg", None, {"fnmd": True, "cap": {"quick": 200, "thorough": 1500}})],
                  "thorough": [("MCQueryGen_core_t.cfg", None), ("MCQueryGen_schema_t.cfg", None), ("MCQueryGen_fault_t.cfg", None)] + _ROWS("thorough")
                              + [("MCQueryGen_userfn_et.cfg", None, {"fnmd": True, "cap": {"quick": 200, "thorough": 1500}})]},
        events={"quick": 3, "thorough": 3},
        cap={"quick": 1900, "thorough": 7000},
        nontrivial="translated",
    ),
    "C03": pcheck.PSpec(
        "C03",
        clauses=["SchemaMatches", "StorageDistinct", "DescriptorMatches", "Accepts", "Refuses", "RowsMatch", "Compiles", "BookingFault"],
        profiles={"quick": [("MCQueryGen_schema.cfg", None)] + _ROWS("quick") + _TREETYPES + _AGGROWS,
                  "thorough": [("MCQueryGen_schema_t.cfg", None)] + _ROWS("thorough") + _TREETYPES + _AGGROWS},
        events={"quick": 6, "thorough": 12},
        cap={"quick": 1200, "thorough": 6000},
    ),
    "C04": pcheck.PSpec(
        "C04",
        clauses=["FaultMissed", "SpuriousFault", "RowsMatch", "Accepts", "Compiles", "BookingFault"],
        profiles={"quick": [("MCQueryGen_fault.cfg", None), ("MCQueryGen_guard.cfg", None)] + _NONNULL("MCQueryGen_nonnull.cfg") + _IFFIRST("quick"),
                  "thorough": [("MCQueryGen_fault_t.cfg", None), ("MCQueryGen_guard_t.cfg", None)] + _NONNULL("MCQueryGen_nonnull_t.cfg") + _IFFIRST("thorough")},
        events={"quick": 5, "thorough": 16},
        cap={"quick": 2800, "thorough": 7000},
        math=True,
    ),
    "C05": pcheck.PSpec(
        "C05",
        clauses=["StateCarried", "Compiles", "BookingFault"],
        profiles={"quick": [("MCQueryGen_core_s.cfg", None), ("MCQueryGen_rows2.cfg", None, {"cap": {"quick": 330, "thorough": 1500}})] + _IFFIRST("quick"),
                  "thorough": [("MCQueryGen_core.cfg", None), ("MCQueryGen_rows2_t.cfg", None, {"cap": {"quick": 330, "thorough": 1500}})] + _IFFIRST("thorough")},
        events={"quick": 8, "thorough": 16},
        seq_mode="histories",
        cap={"quick": 1230, "thorough": 7500},
    ),
    "C06": pcheck.PSpec(
        "C06",
        clauses=["Accepts", "Refuses", "Compiles", "BookingFault", "RowsMatch", "SpuriousFault", "FaultMissed", "RequestsAdmissible",
                 "LibrariesRequested", "TokensPerUse"],
        profiles={t: [("MCQueryGen_c06_%s.cfg" % b, None, {"backend": b, "declv": "none"}) for b in pcheck.ALL_BACKENDS]
                     + [("MCQueryGen_c06z_%s.cfg" % b, None, {"backend": b, "declv": "fresh_Z"}) for b in pcheck.ALL_BACKENDS]
                     + [("MCQueryGen_c06_%s.cfg" % b, None, {"backend": b, "declv": "replace_A"}) for b in pcheck.ALL_BACKENDS]
                     + [("MCQueryGen_c06z_%s.cfg" % b, None, {"backend": b, "declv": v, "cap": {"quick": 60, "thorough": 2000}})
                        for b in pcheck.ALL_BACKENDS for v in ("both_za", "both_az")]
                     # malformed collection declarations and collection calls with the wrong number / type of arguments
                     + [("MCGrafts_c06.cfg", None, {"grafts": ("badmeta_collection", "collcall_"), "cap": {"quick": 240, "thorough": 2400}})]
                  for t in ("quick", "thorough")},
        events={"quick": 8, "thorough": 24},
        cap={"quick": 1000, "thorough": 6000},
        event_cfg="EventGen_wide.cfg",
    ),
    "C10": pcheck.PSpec(
        "C10",
        clauses=["Accepts", "Compiles", "BookingFault", "RowsMatch", "SpuriousFault", "FaultMissed", "SchemaMatches", "WarnsIffUndeclared"],
        profiles={"quick": [("MCQueryGen_types.cfg", None, {"md10": True, "checkwarn": True}),
                            ("MCQueryGen_typesvec.cfg", None, {"md10": True, "checkwarn": True})],
                  "thorough": [("MCQueryGen_types_t.cfg", None, {"md10": True, "checkwarn": True}),
                               ("MCQueryGen_typesvec.cfg", None, {"md10": True, "checkwarn": True})]},
        events={"quick": 8, "thorough": 24},
        cap={"quick": 1000, "thorough": 6000},
    ),
    "C11": pcheck.PSpec(
        "C11",
        clauses=["Accepts", "Refuses", "Compiles", "BookingFault", "RowsMatch", "SpuriousFault", "SchemaMatches"],
        profiles={"quick": [("MCQueryGen_userfn.cfg", None, {"fnmd": True}), ("MCQueryGen_userfn_d.cfg", None, {"fnmd": True}), _BADCALLS,
                            ("MCQueryGen_userfn_f.cfg", None, {"fnmd": True, "cap": {"quick": 210, "thorough": 2500}}),
                            ("MCQueryGen_userfn_e.cfg", None, {"fnmd": True, "cap": {"quick": 300, "thorough": 3000}}),
                            ("MCQueryGen_userfn_m.cfg", None, {"fnmd": True, "cap": {"quick": 160, "thorough": 160}}),
                            ("MCQueryGen_userfn_let.cfg", None, {"fnmd": True, "cap": {"quick": 460, "thorough": 1700}})],
                  "thorough": [("MCQueryGen_userfn_t.cfg", None, {"fnmd": True}), _BADCALLS,
                               ("MCQueryGen_userfn_let_t.cfg", None, {"fnmd": True, "cap": {"quick": 460, "thorough": 900}}),
                               ("MCQueryGen_userfn_ft.cfg", None, {"fnmd": True, "cap": {"quick": 210, "thorough": 2500}}),
                               ("MCQueryGen_userfn_et.cfg", None, {"fnmd": True, "cap": {"quick": 300, "thorough": 3000}}),
                               ("MCQueryGen_userfn_m.cfg", None, {"fnmd": True, "cap": {"quick": 160, "thorough": 160}})]},
        events={"quick": 6, "thorough": 16},
        cap={"quick": 2200, "thorough": 6000},
    ),
    "C12": pcheck.PSpec(
        "C12",
        clauses=["Accepts", "Compiles", "RowsMatch", "SpuriousFault", "BookingFault", "SchemaMatches"],
        profiles={"quick": [("MCQueryGen_math.cfg", None), ("MCQueryGen_math_ctx.cfg", None),
                            ("MCQueryGen_mathfirst.cfg", None, {"cap": {"quick": 240, "thorough": 1000}}),
                            ("MCQueryGen_mathint.cfg", None, {"cap": {"quick": 1400, "thorough": 1400}})],
                  "thorough": [("MCQueryGen_math.cfg", None), ("MCQueryGen_math_ctx.cfg", None),
                               ("MCQueryGen_mathfirst.cfg", None, {"cap": {"quick": 240, "thorough": 1000}}),
                               ("MCQueryGen_mathint.cfg", None, {"cap": {"quick": 1400, "thorough": 1400}})]},
        events={"quick": 4, "thorough": 10},
        cap={"quick": 2440, "thorough": 9000},
        math=True,
        stratify=_first_math,
    ),
    "C13": pcheck.PSpec(
        "C13",
        clauses=["Accepts", "RowsMatch", "SchemaMatches", "SpuriousFault", "Compiles", "BookingFault"],
        profiles={"quick": [("MCQueryGen_arithtable.cfg", None), ("MCQueryGen_arith.cfg", None),
                            ("MCQueryGen_arithif.cfg", None, {"cap": {"quick": 330, "thorough": 2000}})] + _INTDIV("quick") + _AGGROWS,
                  "thorough": [("MCQueryGen_arithtable.cfg", None), ("MCQueryGen_arith.cfg", None),
                               ("MCQueryGen_arithif_t.cfg", None, {"cap": {"quick": 330, "thorough": 2000}})] + _INTDIV("thorough") + _AGGROWS},
        events={"quick": 8, "thorough": 16},
        cap={"quick": 2100, "thorough": 9000},
    ),
}


def make(prop):
    spec = SPECS[prop]

    class M:
        @staticmethod
        def run(tier):
            return pcheck.run(spec, tier)

        @staticmethod
        def replay(path):
            return pcheck.replay(spec, path)
    return M
