"""Generic driver for the properties decided through pipeline P (C01-C06, C09-C13, C18).

A property check is described by a PSpec: which generation profiles (TLC configs) to use per
tier, which backends, which clauses of JobTrace.tla carry its verdict, how event sequences are
formed.  Known findings are tree patterns (see match_pattern) so that a *different* failing
shape of the same property is still reported."""
import collections
import json
import os
import random
import re

import common
import mockbuild
import pipeline
import render

ALL_BACKENDS = ("atlas", "cms_aod", "cms_miniaod")


# ---------------------------------------------------------------- known-finding patterns
# pattern :=  '*' | Kind[:a] [ '(' pattern {',' pattern} ')' ]
# A pattern matches a term if kind (and payload a, when given) agree and, when children are
# given, each child pattern matches the corresponding child.  A finding matches a failing case
# if its pattern matches any sub-term of the case's query.

def parse_pattern(s):
    pos = [0]

    def node():
        m = re.match(r"\*|[A-Za-z|]+(:[^(),]*)?", s[pos[0]:])
        if not m:
            raise common.MachineryError("bad finding pattern: " + s)
        tok = m.group(0)
        pos[0] += len(tok)
        if tok == "*":
            return ("*", None, None)
        kind, _, a = tok.partition(":")
        kids = None
        if pos[0] < len(s) and s[pos[0]] == "(":
            pos[0] += 1
            kids = [node()]
            while s[pos[0]] == ",":
                pos[0] += 1
                kids.append(node())
            if s[pos[0]] != ")":
                raise common.MachineryError("bad finding pattern: " + s)
            pos[0] += 1
        return (kind, a if ":" in tok else None, kids)

    n = node()
    if pos[0] != len(s):
        raise common.MachineryError("bad finding pattern (trailing text): " + s)
    return n


def _match_here(p, t):
    kind, a, kids = p
    if kind == "*":
        return True
    if t["k"] not in kind.split("|"):
        return False
    if a is not None and t["a"] != a:
        return False
    if kids is not None:
        if len(kids) != len(t["ch"]):
            return False
        return all(_match_here(kp, c) for kp, c in zip(kids, t["ch"]))
    return True


def match_pattern(p, t):
    if _match_here(p, t):
        return True
    return any(match_pattern(p, c) for c in t["ch"])


def _subterms(t):
    yield t
    for c in t["ch"]:
        yield from _subterms(c)


_LOOPS = ("Select", "Where", "SelectMany", "Aggregate", "Count", "Sum", "Min", "Max", "First")


def _base(t):
    """What a sequence expression ultimately iterates: the parameter at the bottom of its chain of Select / Where /
    SelectMany steps (through a lambda applied on the spot: its body).  Two separate e.Jets("A") calls are two
    retrievals and two loops (correct on the unchanged tree); only ONE sequence value reached twice is the defect."""
    while True:
        if t["k"] == "Var":
            return "Var:" + t["a"]
        if t["k"] == "Let":
            t = t["ch"][1]
        elif t["k"] in ("Select", "Where", "SelectMany") and t["ch"]:
            t = t["ch"][0]
        else:
            return None


def feature_selfjoin(t):
    """A sequence operator whose body (or, for SelectMany, whose inner sequence) iterates the very
    sequence it is already iterating: the same parameter at the bottom of both."""
    for n in _subterms(t):
        if n["k"] in _LOOPS and n["ch"]:
            src = _base(n["ch"][0])
            if src is None:
                continue
            inner = list(n["ch"][1:])
            # the steps of the source chain run inside this loop as well
            c = n["ch"][0]
            while c["k"] in ("Select", "Where", "SelectMany", "Let") and c["ch"]:
                inner += c["ch"][1:] if c["k"] != "Let" else [c["ch"][0]]
                c = c["ch"][1] if c["k"] == "Let" else c["ch"][0]
            for body in inner:
                if n["k"] == "SelectMany" and _base(body) == src:
                    return True
                for m in _subterms(body):
                    if m["k"] in _LOOPS and m["ch"] and _base(m["ch"][0]) == src:
                        return True
                    if m["k"] == "SelectMany" and len(m["ch"]) > 1 and _base(m["ch"][1]) == src:
                        return True
    return False


def feature_aggmany(t):
    """An aggregate or First() whose source, followed down its chain of Select / Where steps (and the body of a
    lambda applied on the spot), reaches a SelectMany."""
    for n in _subterms(t):
        if n["k"] in ("Count", "Sum", "First", "Aggregate", "Max", "Min") and n["ch"]:
            c = n["ch"][0]
            while c["k"] in ("Select", "Where", "Let", "SelectMany") and c["ch"]:
                if c["k"] == "SelectMany":
                    return True
                c = c["ch"][1] if c["k"] == "Let" else c["ch"][0]
    return False


def feature_outerelem(t):
    """A Select whose body is just a variable bound further OUT (seq.Select(k: j) with j an enclosing parameter): a
    sequence that repeats an outer value once per element."""
    for n in _subterms(t):
        if n["k"] == "Select" and len(n["ch"]) == 2 and n["ch"][1]["k"] == "Var" and n["ch"][1]["a"] != n["a"]:
            return True
    return False


FEATURES = {"selfjoin": feature_selfjoin, "aggmany": feature_aggmany, "outerelem": feature_outerelem}


class PFindings:
    """keys:  <clause>[|<clause>...]@<backend>|any:<pattern>"""

    def __init__(self, findings):
        self.items = []
        for key, text in findings.open.items():
            m = re.match(r"([A-Za-z|]+)@([a-z_|]+):(.*)$", key)
            if not m:
                raise common.MachineryError("bad known-finding key: " + key)
            pat = m.group(3)
            matcher = (lambda t, f=FEATURES[pat[1:]]: f(t)) if pat.startswith("@") else \
                      (lambda t, pp=parse_pattern(pat): match_pattern(pp, t))
            self.items.append((key, set(m.group(1).split("|")), set(m.group(2).split("|")), matcher))

    def lookup(self, clause, backend, term):
        for key, clauses, backends, pat in self.items:
            if clause in clauses and ("any" in backends or backend in backends) and pat(term):
                return key
        return None


# ---------------------------------------------------------------- spec of one property check

class PSpec:
    def __init__(self, prop, clauses, profiles, backends=ALL_BACKENDS, events=None, seq_mode="singletons",
                 support=None, nontrivial="rows", level="model_checking", cap=None, math=False, stratify=None, event_cfg=None):
        self.prop = prop
        self.clauses = set(clauses)
        self.profiles = profiles          # tier -> list of (cfg, simulate or None)
        self.backends = backends
        self.events = events or {"quick": 10, "thorough": 40}
        self.seq_mode = seq_mode
        self.support = support
        self.nontrivial = nontrivial
        self.level = level
        self.cap = cap or {"quick": 1200, "thorough": 20000}
        self.math = math
        self.stratify = stratify
        self.event_cfg = event_cfg


def make_sequences(mode, nev, rnd):
    seqs = [[i + 1] for i in range(nev)]
    if mode == "singletons":
        return seqs
    if mode == "histories":
        # one long history in order, one reversed, rotations of triples, random shuffles
        idx = list(range(1, nev + 1))
        seqs.append(list(idx))
        seqs.append(list(reversed(idx)))
        for _ in range(6):
            s = rnd.sample(idx, min(4, nev))
            seqs.append(s)
            seqs.append(list(reversed(s)))
        import itertools
        tri = rnd.sample(idx, min(3, nev))
        for perm in itertools.permutations(tri):
            seqs.append(list(perm))
        return seqs
    raise common.MachineryError("unknown sequence mode " + mode)


def build_cases(spec, tier, uni, rnd):
    trees = []
    gen_states = gen_trans = 0
    profiles = spec.profiles[tier]
    if os.environ.get("VERIF_PROFILES"):      # ad-hoc exploration only; no registered command sets it
        # cfg[~<simulate num>][@backend][+md10][+fnmd]
        profiles = []
        for c in os.environ["VERIF_PROFILES"].split(","):
            o = {}
            sim = None
            if c.endswith("+fixed"):
                c, o["fixedseed"] = c[:-6], 0
            if c.endswith("+fnmd"):
                c, o["fnmd"] = c[:-5], True
            if c.endswith("+md10"):
                c, o["md10"] = c[:-5], True
            if "@" in c:
                c, o["backend"] = c.split("@")
            if "~" in c:
                c, n = c.split("~")
                sim = {"num": int(n)}
            profiles.append((c, sim, o))
    capped = False
    for entry in profiles:
        cfg, sim = entry[0], entry[1]
        opts = dict(entry[2]) if len(entry) > 2 else {}
        own_cap = opts.pop("cap", None)
        fixed = opts.pop("fixedseed", None)
        prnd = rnd
        if fixed is not None:
            # an exploration whose alarms were triaged once: the same derivations and the same sample whatever the run's
            # seed (VERIF_EXPLORE=<seed> re-opens it: expect new shapes of the known defects, each needing triage)
            fixed = int(os.environ.get("VERIF_EXPLORE", fixed))
            prnd = random.Random(fixed)
            if sim:
                sim = dict(sim, seed=fixed)
        grafts = opts.pop("grafts", None)
        if grafts:
            # unsupported constructs grafted into the profile's queries (spec/Grafts.tla), those whose name starts with
            # one of the given prefixes: every one must be refused
            bases, r = pipeline.generate_queries(cfg, module="MCGrafts")
            qs = []
            seen_g = set()
            for b in bases:
                if b["support"] != "MUST_ACCEPT":
                    continue
                for g in b["grafts"]:
                    gk = json.dumps(g["q"], sort_keys=True)
                    if g["how"].startswith(tuple(grafts)) and gk not in seen_g:
                        seen_g.add(gk)
                        qs.append({"q": g["q"], "support": "MUST_REJECT", "how": g["how"]})
        else:
            qs, r = pipeline.generate_queries(cfg, simulate=sim)
        gen_states += r.distinct
        gen_trans += r.generated
        if own_cap and len(qs) > own_cap[tier]:
            # a profile with its own share: smallest terms first, the rest sampled
            n = own_cap[tier]
            qs.sort(key=lambda t: len(render.compact(t["q"])))
            qs = qs[:n // 2] + prnd.sample(qs[n // 2:], n - n // 2)
            capped = True
        for t in qs:
            t["opts"] = opts
            t["own"] = bool(own_cap)     # a profile with its own share is not sampled again below
        trees.extend(qs)
    seen = set()
    uniq = []
    for t in trees:
        k = json.dumps([t["q"], t["opts"]], sort_keys=True)
        if k not in seen:
            seen.add(k)
            uniq.append(t)
    total = len(uniq)
    owned = [t for t in uniq if t.get("own")]
    uniq = [t for t in uniq if not t.get("own")]
    cap = max(spec.cap[tier] - len(owned), spec.cap[tier] // 3)
    if os.environ.get("VERIF_CAP"):
        cap = int(os.environ["VERIF_CAP"])
    exhaustive = not capped
    total_free = len(uniq)
    if total_free > cap and spec.stratify:
        # equal share per stratum (e.g. per math function), smallest terms first inside each
        groups = {}
        for t in uniq:
            groups.setdefault(spec.stratify(t["q"]), []).append(t)
        per = max(1, cap // len(groups))
        picked = []
        for k in sorted(groups):
            g = sorted(groups[k], key=lambda t: len(render.compact(t["q"])))
            head = g[:(per + 1) // 2]
            rest = g[(per + 1) // 2:]
            picked += head + (rnd.sample(rest, min(len(rest), per - len(head))) if rest else [])
        uniq = picked
        exhaustive = False
    elif total_free > cap:
        # the smallest terms first (they are the cores every larger failure reduces to), the rest sampled
        uniq.sort(key=lambda t: len(render.compact(t["q"])))
        head = uniq[:cap // 2]
        uniq = head + rnd.sample(uniq[cap // 2:], cap - len(head))
        exhaustive = False
    uniq = uniq + owned
    cases = []
    cid = 0
    for i, t in enumerate(uniq):
        # every query goes to one backend in rotation, and a share of them to all backends
        opts = t.get("opts", {})
        if "backend" in opts:
            bks = [opts["backend"]]
        elif len(spec.backends) == 1 or tier == "thorough":
            bks = spec.backends
        else:
            bks = [spec.backends[i % len(spec.backends)]]
            if i % 8 == 0:
                bks = spec.backends
        for b in bks:
            cid += 1
            style = render.Style(method_style=(rnd.random() < 0.7))
            declv = opts.get("declv", "none")
            md = None
            if declv != "none" or opts.get("fnmd"):
                md = [{k: v for k, v in m.items() if v != ""} for m in uni["md"][b]]
            for one in {"none": [], "both_za": ["fresh_Z", "replace_A"], "both_az": ["replace_A", "fresh_Z"]}.get(declv, [declv]):
                cm = dict(uni["collmd"][b][one])
                if b != "atlas":
                    cm.pop("link_libraries", None)
                md.append(cm)
            if opts.get("md10"):
                if md is None:
                    md = [{k: v for k, v in m.items() if v != ""} for m in uni["md"][b]]
                md += [{k: v for k, v in m.items() if v != ""} for m in uni["md10"][b]] + [uni["enummd"][b]]
            if opts.get("fnmd"):
                md += [{k: v for k, v in m.items() if v != ""} for m in uni["fnmd"][b]]
            cases.append({"id": cid, "backend": b, "q": t["q"], "support": spec.support or t["support"], "declv": declv,
                          "checkwarn": bool(opts.get("checkwarn")),
                          "src": render.render(t["q"], uni, b, style, md=md)})
    return cases, total, exhaustive, gen_states, gen_trans


def run(spec, tier):
    rep = common.Report(spec.prop, tier)
    rnd = random.Random(common.seed())
    mockbuild.build_all()
    uni = mockbuild.universe()
    import time
    stages = {}
    t0 = time.time()
    # generation can hold hundreds of MB of TLC output; do it in a child so that the processes
    # forked per case later do not inherit (and page-copy) it
    import multiprocessing as mp
    with mp.get_context("fork").Pool(1) as gp:
        cases, total, exhaustive, gs, gt = gp.apply(build_cases, (spec, tier, uni, rnd))
    stages["generate_queries"] = round(time.time() - t0, 1)
    t0 = time.time()
    events, er = pipeline.generate_events(spec.events[tier], cfg=spec.event_cfg)
    stages["generate_events"] = round(time.time() - t0, 1)
    seqs = make_sequences(spec.seq_mode, len(events), rnd)
    t0 = time.time()
    recs = pipeline.run_cases(cases, events, seqs, keep_emitted=True)
    stages["translate_compile_run"] = round(time.time() - t0, 1)
    t0 = time.time()
    if os.environ.get("VERIF_VERBOSE"):
        print("stages so far", stages, flush=True)
    math_file = None
    if spec.math:
        import mathtable
        math_file = os.path.join(common.scratch("verif.math."), "table.json")
        mathtable.build(math_file)
    verdicts, summaries, vs, vt = pipeline.validate(recs, events, math_file=math_file)
    stages["tlc_validate"] = round(time.time() - t0, 1)
    if os.environ.get("VERIF_VERBOSE"):
        print("stages", stages, flush=True)
    byid = {r["id"]: r for r in recs}
    pf = PFindings(rep.findings)
    failed_cases = set()
    clause_counts = collections.Counter()
    for cid, clause, run_i, pos in verdicts:
        if clause not in spec.clauses:
            continue
        clause_counts[clause] += 1
        rec = byid[cid]
        failed_cases.add(cid)
        known = pf.lookup(clause, rec["backend"], rec["q"])
        key = known or "%s@%s:%s" % (clause, rec["backend"], render.compact(rec["q"]))
        rep.fail(key, replay_record(spec, rec, clause, run_i, pos, events, seqs))
    nontrivial = set()
    for r in recs:
        if r["compile"]["ok"] and any(ev["rows"] for run_ in r["runs"] for ev in run_["events"]):
            nontrivial.add((render.compact(r["q"]), r["backend"]))
    fn_judged = {}
    if spec.math:
        for r in recs:
            for n in _subterms(r["q"]):
                if n["k"] == "Math":
                    fn_judged[n["a"]] = fn_judged.get(n["a"], 0) + summaries.get(r["id"], {}).get("judged", 0)
    judged = sum(s["judged"] for s in summaries.values())
    skipped = sum(s["skipped"] for s in summaries.values())
    nfault = sum(s.get("nfault", 0) for s in summaries.values())
    nrow = sum(s.get("nrow", 0) for s in summaries.values())
    # vacuity: a check whose verdict clauses were never exercised has shown nothing
    if "RowsMatch" in spec.clauses and nrow == 0 and spec.support != "MUST_REJECT":
        raise common.MachineryError("vacuous run: no event of any case denoted a row")
    if "FaultMissed" in spec.clauses and nfault == 0:
        raise common.MachineryError("vacuous run: no event of any case denoted a fault")
    sample_recs = [r for r in recs if r["compile"]["ok"]][:2]
    cov = {
        "states": gs + er.distinct + vs,
        "transitions": gt + er.generated + vt,
        "traces_validated_against_impl": len(recs),
        "evaluations": judged,
        "distinct_nontrivial": len(nontrivial),
        "rule": "queries: every derivation of the profile(s) %s within MaxSize (TLC, exhaustive=%s, %d enumerated, %d run); "
                "events: %d (a tlc -simulate sample of spec/EventGen.tla with the run's seed plus one event per size plan: every bank empty / "
                "one object / two / mixed / one bank missing); a case is non-trivial when its "
                "package compiled and at least one event produced a row; distinct by canonical term x backend"
                % ([p[0] for p in spec.profiles[tier]], exhaustive, total, len(cases), len(events)),
        "exhaustive": exhaustive,
        "queries_enumerated": total,
        "cases_run": len(recs),
        "events": len(events),
        "sequences_per_case": len(seqs),
        "event_evaluations_judged": judged,
        "event_evaluations_skipped_outside_domain": skipped,
        "event_evaluations_expecting_a_fault": nfault,
        "event_evaluations_expecting_rows": nrow,
        "stage_seconds": stages,
        "clauses": sorted(spec.clauses),
        "math_functions_judged_evaluations": fn_judged,
        "clause_failures": dict(clause_counts),
        "cases_failing": len(failed_cases),
        "backends": list(spec.backends),
        "samples": [{"query": r["src"][-300:], "backend": r["backend"],
                     "first_events": [{"e": e["e"], "rows": e["rows"], "fault": e["fault"]} for e in r["runs"][0]["events"][:1]] if r["runs"] else []}
                    for r in sample_recs] or [{"note": "no compiled case"}],
    }
    return rep.finish(spec.level, cov, assumptions=ASSUMPTIONS)


ASSUMPTIONS = [
    "TLC 1.8 evaluates Denote/Schema/Uses (spec/Query.tla) correctly; g++ 12 / libstdc++ give the meaning of the emitted C++",
    "the emitted code is compiled as rendered against the model experiment framework in harness/model (generated from "
    "spec/Universe.tla); the model is strict on declared types/headers and lenient on framework conveniences",
    "numbers are compared on a 1/1000 grid with tolerance 2/1000 (Values.tla), on small dyadic value pools",
    "events whose denotation leaves the quantified domain (division by zero, % on negatives, Min/Max of nothing, "
    "laziness the properties do not fix) are skipped and counted",
]


def replay_record(spec, rec, clause, run_i, pos, events, seqs):
    ev = None
    if run_i and pos and rec["runs"] and run_i <= len(rec["runs"]):
        evs = rec["runs"][run_i - 1]["events"]
        if pos <= len(evs):
            o = evs[pos - 1]
            ev = {"observed": o, "expected": getattr(pipeline.validate, "expected", {}).get((rec["id"], run_i, pos)),
                  "event": events[o["e"] - 1] if o["e"] else None,
                  "sequence": seqs[run_i - 1] if run_i - 1 < len(seqs) else None}
    return {"clause": clause, "backend": rec["backend"], "query": rec["src"], "term": rec["q"],
            "support": rec["support"], "translate": rec["translate"], "compile": rec["compile"],
            "run": run_i, "pos": pos, "at": ev, "emitted": rec.get("emitted", "")[-6000:]}


def replay(spec, path):
    """Re-run the one case of a replay file against the current tree and re-validate it."""
    r = json.load(open(path))
    mockbuild.build_all()
    case = {"id": 1, "backend": r["backend"], "q": r["term"], "support": r["support"], "src": r["query"]}
    events = [r["at"]["event"]] if r.get("at") and r["at"].get("event") else pipeline.generate_events(10)[0]
    seqs = [[i + 1] for i in range(len(events))]
    recs = pipeline.run_cases([case], events, seqs, keep_emitted=True, procs=1)
    verdicts, _, _, _ = pipeline.validate(recs, events)
    hits = [v for v in verdicts if v[1] in spec.clauses]
    print(json.dumps({"verdicts_now": hits, "translate": recs[0]["translate"], "compile": recs[0]["compile"]}, indent=1)[:3000])
    if hits:
        print("VIOLATION property=%s replay=%s" % (spec.prop, path))
        return 1
    print("replay: the case is accepted by the specification now")
    return 0
