# Sourced by every stub tool.  Logs the call, counts it, and fails it when it is the
# FAULT_AT-th logged command of this invocation (VP_FAULT_AT, 0 = never).
vp_log() {
  n=$(/usr/bin/cat /vp/counter 2>/dev/null || echo 0)
  n=$((n + 1))
  echo $n > /vp/counter
  echo "$n $*" >> /vp/commands
  if [ "${VP_FAULT_AT:-0}" = "$n" ]; then
    echo "vp: injected failure of step $n ($1)" >&2
    return 1
  fi
  return 0
}
