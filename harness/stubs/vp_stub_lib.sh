# Sourced by every stub tool.  Logs the call, counts it, and fails it when it is the
# FAULT_AT-th logged command of this invocation (VP_FAULT_AT, 0 = never).
vp_log() {
  n=$(/usr/bin/cat /vp/counter 2>/dev/null || echo 0)
  n=$((n + 1))
  echo $n > /vp/counter
  echo "$n $*" >> /vp/commands
  if [ "${VP_FAULT_AT:-0}" = "$n" ]; then
    if [ "${VP_FAULT_LATE:-0}" = "1" ] && { [ "$1" = "job" ] || [ "$1" = "convert" ]; }; then
      # a LATE failure: the tool does its work (its output file exists, possibly partial) and then dies
      VP_LATE_FAIL=1
      return 0
    fi
    echo "vp: injected failure of step $n ($1)" >&2
    return 1
  fi
  return 0
}
vp_late_exit() {
  if [ -n "$VP_LATE_FAIL" ]; then
    echo "vp: injected late failure (the output was already written)" >&2
    exit 134
  fi
}
