. /stubs/vp_stub_lib.sh
vp_log setup cms_entrypoint || return 1
export CVSROOT=vp
