. /stubs/vp_stub_lib.sh
vp_log setup release_setup || return 1
export AnalysisBaseExternals_PLATFORM=x86_64-vp
export VP_SETUP_DONE=1
