"""C15 - job-script blocks are emitted once each in dependency order.

 1. design run: TLC explores the coded emission loop (MetaBlocks.tla) for every block
    list in scope and checks it against Outcome/ValidScript; exports the lists.
 2. spec -> code: every exported list is fed to the real generate_script_block; a sample
    goes through the whole ATLAS executor and the rendered ATestRun_eljob.py is read back.
 3. code -> spec: TLC (MetaTrace.tla) validates every observed (blocks, outcome, script)."""
import json
import os
import sys

import common
import translate


def _replay_function(lists):
    common.use_repo()
    from func_adl_xAOD.common.meta_data import JobScriptSpecification, generate_script_block
    recs = []
    for bl in lists:
        specs = [JobScriptSpecification(name=b["name"], script=list(b["script"]), depends_on=list(b["deps"])) for b in bl]
        r = {"blocks": bl, "via": "function"}
        try:
            out = generate_script_block(specs)
            r["outcome"] = "ok"
            r["script"] = [str(x) for x in out]
        except Exception as e:  # noqa
            r["outcome"] = type(e).__name__
            r["script"] = []
        recs.append(r)
    return recs


_BEGIN = "job.sampleHandler(sh)"
_END = "# Create the algorithm's configuration."


def _render_one(bl):
    """Send the blocks as MetaData of a trivial query through the real ATLAS executor and
    read the job-options region of the rendered ATestRun_eljob.py."""
    src = 'EventDataset("x")'
    # extract_metadata lists outermost first: wrap so that the extracted list equals bl
    for b in reversed(bl):
        md = {"metadata_type": "add_job_script", "name": b["name"], "script": list(b["script"]),
              "depends_on": list(b["deps"])}
        src = "MetaData(%s, %r)" % (src, md)
    src = 'Select(%s, lambda e: e.EventInfo("EventInfo").runNumber())' % src
    d = common.scratch("verif.c15.")
    res = translate.translate_source(src, "atlas", d)
    r = {"blocks": bl, "via": "rendered"}
    if res["outcome"] != "ok":
        r["outcome"] = res["exc"]
        r["script"] = []
    else:
        text = open(os.path.join(d, "ATestRun_eljob.py")).read()
        if _BEGIN not in text or _END not in text:
            raise common.MachineryError("job-options region markers not found in rendered ATestRun_eljob.py")
        region = text.split(_BEGIN, 1)[1].split(_END, 1)[0]
        r["outcome"] = "ok"
        r["script"] = [ln for ln in region.split("\n") if ln.strip() != ""]
    return r


def _nontrivial(bl):
    return len(bl) >= 2 or any(len(b["deps"]) > 0 for b in bl)


def run(tier, lists_override=None):
    rep = common.Report("C15", tier)
    work = common.scratch("verif.c15.")
    cfgs = ["MCMetaBlocks_quick.cfg", "MCMetaBlocks_dup_quick.cfg"] if tier == "quick" else \
        ["MCMetaBlocks_thorough.cfg", "MCMetaBlocks_thorough_b.cfg", "MCMetaBlocks_thorough_c.cfg", "MCMetaBlocks_dup.cfg"]
    cfg = " + ".join(cfgs)
    lists, seen = [], set()

    class design:       # totals over the design runs
        distinct = 0
        generated = 0
    for c in cfgs:
        lists_file = os.path.join(work, "lists.json")
        d = common.run_tlc("MCMetaBlocks", c, env={"OUT_FILE": lists_file})
        design.distinct += d.distinct
        design.generated += d.generated
        for bl in json.load(open(lists_file)):
            k = json.dumps(bl, sort_keys=True)
            if k not in seen:
                seen.add(k)
                lists.append(bl)
    if lists_override is not None:
        lists = lists_override
    # spec -> code
    recs = _replay_function(lists)
    step = max(1, len(lists) // (150 if tier == "quick" else 1500))
    import random
    rnd = random.Random(common.seed())
    sample = [lists[i] for i in range(0, len(lists), step)] + [rnd.choice(lists) for _ in range(50)]
    for bl in sample:
        recs.append(_render_one(bl))
    # code -> spec, in chunks TLC's JSON reader is comfortable with
    class val:
        distinct = 0
        generated = 0
    verdicts = []
    CH = 50000
    for off in range(0, len(recs), CH):
        trace_file = os.path.join(work, "trace.json")
        json.dump(recs[off:off + CH], open(trace_file, "w"))
        v = common.run_tlc("MetaTrace", "MetaTrace.cfg", env={"TRACE_FILE": trace_file})
        val.distinct += v.distinct
        val.generated += v.generated
        verdicts += [(t, idx + off, clause) for t, idx, clause in v.plain("VERDICT")]
    if val.distinct != 2 * len(recs):
        raise common.MachineryError("trace validation visited %d states, expected %d" % (val.distinct, 2 * len(recs)))
    for _, idx, clause in verdicts:
        r = recs[idx - 1]
        key = "%s:%s:%s" % (clause, r["via"], json.dumps(r["blocks"], sort_keys=True, separators=(",", ":")))
        rep.fail(key, {"clause": clause, "record": r,
                       "how": "feed record.blocks to func_adl_xAOD.common.meta_data.generate_script_block"})
    distinct = len({json.dumps(bl, sort_keys=True) for bl in lists if _nontrivial(bl)})
    cov = {
        "states": design.distinct + val.distinct,
        "transitions": design.generated + val.generated,
        "traces_validated_against_impl": len(recs),
        "evaluations": len(recs),
        "distinct_nontrivial": distinct,
        "rule": "every block list of length <= MaxLen over the constants of %s (and, in the *_dup configurations, every list of exactly four blocks over three names "
                "with name-specific scripts and up to two dependencies each) is enumerated by TLC; non-trivial = >= 2 blocks or a dependency; distinct by block list" % cfg,
        "exhaustive": True,
        "design_states": design.distinct,
        "rendered_files_checked": len(sample),
        "error_outcomes_observed": sum(1 for r in recs if r["outcome"] != "ok"),
        "samples": [recs[len(recs) // 3], recs[-1]],
    }
    return rep.finish("model_checking", cov, assumptions=[
        "TLC 1.8; block names/scripts limited to the constants in spec/%s" % cfg,
        "rendered job options are read from the region between '%s' and '%s' of ATestRun_eljob.py" % (_BEGIN, _END),
    ])


def replay(path):
    r = json.load(open(path))
    rec = r["record"]
    got = (_replay_function([rec["blocks"]]) if rec["via"] == "function" else [_render_one(rec["blocks"])])[0]
    print(json.dumps({"expected_clause": r["clause"], "observed_now": got}, indent=1))
    work = common.scratch("verif.c15.")
    tf = os.path.join(work, "t.json")
    json.dump([got], open(tf, "w"))
    val = common.run_tlc("MetaTrace", "MetaTrace.cfg", env={"TRACE_FILE": tf})
    v = val.plain("VERDICT")
    if v:
        print("VIOLATION property=C15 replay=%s" % path)
        return 1
    print("replay: record is accepted by the specification now")
    return 0
