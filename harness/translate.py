"""Drive the real translator (imported from the tree under test).  Plumbing only."""
import ast
import logging
import os
import shutil
import sys
import traceback
from pathlib import Path

import common


def executor_for(backend):
    common.use_repo()
    if backend == "atlas":
        from func_adl_xAOD.atlas.xaod.executor import atlas_xaod_executor
        return atlas_xaod_executor()
    if backend == "cms_aod":
        from func_adl_xAOD.cms.aod.executor import cms_aod_executor
        return cms_aod_executor()
    if backend == "cms_miniaod":
        from func_adl_xAOD.cms.miniaod.executor import cms_miniaod_executor
        return cms_miniaod_executor()
    raise common.MachineryError("unknown backend " + backend)


class _WarnCatcher(logging.Handler):
    def __init__(self):
        super().__init__(level=logging.WARNING)
        self.msgs = []

    def emit(self, record):
        self.msgs.append(record.getMessage())


def parse_query(src, wire="ast"):
    a = ast.parse(src.strip()).body[0].value
    if wire == "qastle":
        import qastle
        a = qastle.text_ast_to_python_ast(qastle.python_ast_to_text_ast(a)).body[0].value
    return a


def translate_source(src, backend, outdir, wire="ast", exe=None, twice=False, rewrite=False):
    """Translate one query given as Python source text.  Returns a plain dict:
    outcome ok/raise, exception class, files written (name, mode), descriptor.
    twice: the same query OBJECT is translated once before (into a scratch directory); what is
    reported is its second translation.
    rewrite: the transformed tree (apply_ast_transformations once) is written to a scratch directory first and then
    written again: what is reported is the second package made from the SAME transformed tree."""
    os.makedirs(outdir, exist_ok=True)
    h = _WarnCatcher()
    root = logging.getLogger()
    root.addHandler(h)
    res = {"outcome": "ok", "exc": "", "msg": "", "warnings": [], "files": [],
           "treename": "", "filename": "", "main_script": ""}
    try:
        a = parse_query(src, wire)
        if exe is None:
            exe = executor_for(backend)
        if twice:
            import tempfile
            first = tempfile.mkdtemp(prefix="verif.twice.")
            try:
                exe.write_cpp_files(exe.apply_ast_transformations(a), Path(first))
            finally:
                shutil.rmtree(first, ignore_errors=True)
            h.msgs = []     # the warnings reported are those of the second translation
        a2 = exe.apply_ast_transformations(a)
        if rewrite:
            import tempfile
            first = tempfile.mkdtemp(prefix="verif.rewrite.")
            try:
                exe.write_cpp_files(a2, Path(first))
            finally:
                shutil.rmtree(first, ignore_errors=True)
            h.msgs = []     # the warnings reported are those of the second writing
        info = exe.write_cpp_files(a2, Path(outdir))
        res["treename"] = str(getattr(info.result_rep, "treename", ""))
        res["filename"] = str(getattr(info.result_rep, "filename", ""))
        res["main_script"] = str(info.main_script)
        for fn in info.all_filenames:
            p = Path(outdir) / fn
            res["files"].append({"name": fn, "exists": p.exists(),
                                 "mode": (p.stat().st_mode & 0o777) if p.exists() else 0})
    except BaseException as e:  # noqa
        if isinstance(e, (KeyboardInterrupt, SystemExit)):
            raise
        res["outcome"] = "raise"
        res["exc"] = type(e).__name__
        res["msg"] = str(e)[:400]
        res["tb"] = traceback.format_exc()[-1500:]
    finally:
        root.removeHandler(h)
    res["warnings"] = h.msgs
    return res
