"""C14 - injected code blocks land once, in order, in their documented places.

 1. design: TLC explores the ingestion loop as coded (MCInject) against Outcome/Slots for every
    block list in scope and exports the lists.
 2. spec -> code: each list is sent as inject_code MetaData of a small query through the real
    executor; the rendered files are split into structural regions and every text is listed.
 3. code -> spec: TLC (InjectTrace) requires, per region, exactly the slots of its field."""
import json
import multiprocessing as mp
import os
import random
import re
import shutil

import common
import translate

_INC = re.compile(r'^#include\s+"([^"]*)"\s*$')


def _texts(lines):
    out = []
    for ln in lines:
        s = ln.strip()
        if not s:
            continue
        m = _INC.match(s)
        if m:
            out.append(m.group(1))
        elif s.startswith(","):
            out.append(s[1:].strip())
        else:
            out.append(s)
    return out


def _split(text, markers):
    """Cut text at the first occurrence of each marker in order; returns the pieces."""
    pieces = []
    rest = text
    for m in markers:
        i = rest.find(m)
        if i < 0:
            raise common.MachineryError("structural marker %r not found in rendered file" % m)
        pieces.append(rest[:i])
        rest = rest[i:]
    pieces.append(rest)
    return pieces


def atlas_regions(d):
    cxx = open(os.path.join(d, "query.cxx"), errors="replace").read()
    inc, ctor_head, rest = _split(cxx, ["query :: query (", ": EL::AnaAlgorithm (name, pSvcLocator)"])
    after = rest.split("\n")
    # initialiser list: lines after the base-class initialiser up to the line that is just "{"
    init = []
    k = 1
    while k < len(after) and after[k].strip() != "{":
        init.append(after[k])
        k += 1
    body_text = "\n".join(after[k:])
    ctor_body, initialize, rest2 = _split(body_text, ["StatusCode query :: initialize ()", "StatusCode query :: execute ()"])
    h = open(os.path.join(d, "query.h"), errors="replace").read()
    h_inc, h_class = _split(h, ["class query"])
    cm = open(os.path.join(d, "package_CMakeLists.txt"), errors="replace").read().split("\n")
    link = []
    cm_rest = []
    seen_link = False
    for ln in cm:
        if "LINK_LIBRARIES AnaAlgorithmLib" in ln and not seen_link:
            seen_link = True
            toks = ln.strip().rstrip(")").split()
            link += toks[toks.index("AnaAlgorithmLib") + 1:]
        else:
            cm_rest.append(ln)
    other = []
    for f in ("ATestRun_eljob.py", "runner.sh"):
        other += open(os.path.join(d, f), errors="replace").read().split("\n")
    return {"cxx_includes": _texts(inc.split("\n")), "cxx_init_list": _texts(init), "cxx_ctor_body": _texts(ctor_body.split("\n")),
            "cxx_initialize": _texts(initialize.split("\n")), "cxx_rest": _texts(rest2.split("\n") + ctor_head.split("\n")),
            "h_includes": _texts(h_inc.split("\n")), "h_class": _texts(h_class.split("\n")),
            "cmake_link": link, "cmake_rest": _texts(cm_rest), "other_files": _texts(other)}


def cms_regions(d):
    cc = open(os.path.join(d, "Analyzer.cc"), errors="replace").read()
    inc, rest = _split(cc, ["class Analyzer"])
    return {"cc_includes": _texts(inc.split("\n"))}


def block_md(b, lines):
    """The metadata dict for an abstract block; `lines` is the spec's text table (exported by TLC)."""
    md = {"metadata_type": "inject_code", "name": b["name"]}
    for f in lines[b["shape"]]:
        ls = list(lines[b["shape"]][f])
        if ls or b["shape"] == "emptylists":
            md[f] = ls
    if b["bad"]:
        md["no_such_field_vp"] = ["x"]
    return md


def _one(args):
    i, bl, backend, lines, work = args
    d = os.path.join(work, "c%d" % i)
    coll = "Jets" if backend == "atlas" else "Muons"
    src = 'EventDataset("vp")'
    for b in reversed(bl):
        src = "MetaData(%s, %r)" % (src, block_md(b, lines))
    src = 'Select(%s, lambda e: e.%s("bk").Select(lambda j: j.pt()))' % (src, coll)
    try:
        res = translate.translate_source(src, backend, d)
        rec = {"blocks": bl, "backend": backend, "outcome": "ok" if res["outcome"] == "ok" else res["exc"], "regions": {}}
        if res["outcome"] == "ok":
            rec["regions"] = atlas_regions(d) if backend == "atlas" else cms_regions(d)
        else:
            rec["regions"] = {k: [] for k in (["cc_includes"] if backend != "atlas" else
                              ["cxx_includes", "cxx_init_list", "cxx_ctor_body", "cxx_initialize", "cxx_rest", "h_includes", "h_class",
                               "cmake_link", "cmake_rest", "other_files"])}
        return rec
    finally:
        shutil.rmtree(d, ignore_errors=True)


def run(tier, only=None):
    rep = common.Report("C14", tier)
    rnd = random.Random(common.seed())
    design = common.run_tlc("MCInject", "MCInject_%s.cfg" % tier)
    lists = design.tagged("BLOCKS")
    lines = design.tagged("LINES")
    if len(lines) < 1:
        raise common.MachineryError("the design run did not export the line table")
    lines = lines[0]
    total = len(lists)
    cap = 1200 if tier == "quick" else 9000
    if total > cap:
        lists.sort(key=len)
        short = [x for x in lists if len(x) <= 2]
        lists = short + rnd.sample([x for x in lists if len(x) > 2], max(0, cap - len(short)))
    if only is not None:
        lists = only
    jobs = []
    work = common.scratch("verif.c14.")
    for i, bl in enumerate(lists):
        jobs.append((len(jobs), bl, "atlas", lines, work))
        if i % 6 == 0:
            jobs.append((len(jobs), bl, ("cms_aod", "cms_miniaod")[(i // 6) % 2], lines, work))
    common.use_repo()
    translate.executor_for("atlas")
    import pipeline
    pipeline._pristine()
    ctx = mp.get_context("fork")
    with ctx.Pool(processes=common.NCPU, maxtasksperchild=1) as pool:
        recs = pool.map(_one, jobs, chunksize=1)
    tf = os.path.join(work, "trace.json")
    json.dump(recs, open(tf, "w"))
    val = common.run_tlc("InjectTrace", "InjectTrace.cfg", env={"TRACE_FILE": tf})
    if val.distinct != 2 * len(recs):
        raise common.MachineryError("trace validation visited %d states, expected %d" % (val.distinct, 2 * len(recs)))
    for _, idx, clause in val.plain("VERDICT"):
        r = recs[idx - 1]
        key = "%s@%s:%s" % (clause, r["backend"], ";".join("%s/%s%s" % (b["name"], b["shape"], "/bad" if b["bad"] else "") for b in r["blocks"]))
        rep.fail(key, {"clause": clause, "record": r, "metadata": [block_md(b, lines) for b in r["blocks"]]})
    cov = {
        "states": design.distinct + val.distinct,
        "transitions": design.generated + val.generated,
        "traces_validated_against_impl": len(recs),
        "evaluations": len(recs),
        "distinct_nontrivial": len({json.dumps(r["blocks"]) + r["backend"] for r in recs
                                    if len(r["blocks"]) >= 2 or any(b["shape"] not in ("empty", "emptylists") for b in r["blocks"])}),
        "rule": "block lists: every list up to MaxLen of MCInject_%s.cfg over 2 names x 9 shapes (all fields one/two lines in both orders, includes only, one text shared by two fields, "
                "members only, template-hostile text, empty, empty lists) x unknown-field flag (%d enumerated by TLC, %d sent; every list to ATLAS, every "
                "6th also to a CMS backend); non-trivial = >= 2 blocks or a block with content" % (tier, total, len(lists)),
        "exhaustive": total <= cap,
        "accepted": sum(1 for r in recs if r["outcome"] == "ok"),
        "refused": sum(1 for r in recs if r["outcome"] != "ok"),
        "samples": [{"blocks": recs[5]["blocks"], "outcome": recs[5]["outcome"]},
                    {"blocks": recs[-1]["blocks"], "outcome": recs[-1]["outcome"], "h_class": recs[-1]["regions"].get("h_class", [])[-6:]}],
    }
    return rep.finish("model_checking", cov, assumptions=[
        "regions of the rendered files are located by the fixed text of the r21 templates (constructor head, base-class initialiser, "
        "initialize()/execute() heads, 'class query', the LINK_LIBRARIES line); a template refactoring that moves these markers is a machinery "
        "failure (exit 2), not a verdict",
    ])


def replay(path):
    r = json.load(open(path))
    return run("quick", only=[r["record"]["blocks"]])
