"""Dispatcher: ./check <id> --tier quick|thorough | --replay file"""
import importlib
import os
import sys
import traceback

sys.path.insert(0, os.path.dirname(os.path.abspath(__file__)))
import common  # noqa: E402

CHECKS = {
    "C01": "pprops",
    "C02": "pprops",
    "C03": "pprops",
    "C04": "pprops",
    "C05": "pprops",
    "C10": "pprops",
    "C11": "pprops",
    "C12": "pprops",
    "C13": "pprops",
    "C14": "c14",
    "C16": "c16",
    "C17": "c17",
    "C18": "c18",
    "C06": "pprops",
    "C07": "c07",
    "C08": "c08",
    "C09": "c09",
    "C15": "c15",
}


def main(argv):
    if len(argv) < 2 or argv[1] not in CHECKS and argv[1] != "selftest":
        print("usage: check <%s> [--tier quick|thorough] [--replay file]" % "|".join(sorted(CHECKS)))
        return 2
    prop = argv[1]
    tier = common.tier_from_args(argv)
    if prop == "selftest":
        import selftest
        try:
            return selftest.main()
        except common.MachineryError as e:
            print("MACHINERY-FAILURE selftest: %s" % e)
            return 2
    try:
        if CHECKS[prop] == "pprops":
            import pprops
            mod = pprops.make(prop)
        else:
            mod = importlib.import_module(CHECKS[prop])
        if "--replay" in argv:
            return mod.replay(argv[argv.index("--replay") + 1])
        return mod.run(tier)
    except common.MachineryError as e:
        print("MACHINERY-FAILURE property=%s: %s" % (prop, e))
        return 2
    except Exception:
        traceback.print_exc()
        print("MACHINERY-FAILURE property=%s: unexpected exception" % prop)
        return 2


if __name__ == "__main__":
    sys.exit(main(sys.argv))
