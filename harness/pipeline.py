"""Pipeline P: TLC-generated queries -> real translator -> g++ against the model data model
-> run on TLC-generated events -> trace -> TLC validation (JobTrace.tla)."""
import json
import multiprocessing as mp
import os
import random
import re
import shutil
import subprocess
import sys

import common
import mockbuild
import render
import translate

CASE_TIMEOUT = 120


# ------------------------------------------------------------------ generation (spec -> cases)

def generate_queries(cfg, simulate=None, module="MCQueryGen", env=None):
    """Run the derivation machine; returns (list of term trees, TLCResult)."""
    extra = []
    workers = None
    if simulate:
        extra = ["-simulate", "num=%d" % simulate["num"], "-depth", str(simulate.get("depth", 60)),
                 "-seed", str(simulate.get("seed", common.seed()))]
        workers = 1
    r = common.run_tlc(module, cfg, extra=extra, workers=workers, env=env)
    seen = set()
    out = []
    for t in r.tagged("CASE"):
        key = json.dumps(t["q"], sort_keys=True)
        if key not in seen:
            seen.add(key)
            out.append(t)
    return out, r


N_PLANS = 8


def generate_events(num, seed=None, cfg="EventGen.cfg", plans=True):
    cfg = cfg or "EventGen.cfg"
    seed = common.seed() if seed is None else seed
    r = common.run_tlc("EventGen", cfg, workers=1,
                       extra=["-simulate", "num=%d" % num, "-depth", "400", "-seed", str(seed + 1)])
    seen = set()
    out = []
    for e in r.tagged("EVENT"):
        key = json.dumps(e, sort_keys=True)
        if key not in seen:
            seen.add(key)
            out.append(e)
    if plans:
        # one event per size plan of spec/EventGen.tla (every bank empty / one object / two objects / mixed / one bank
        # missing), attributes random: the size classes a small free sample may not contain
        from concurrent.futures import ThreadPoolExecutor

        def one(k):
            return common.run_tlc("EventGen", cfg, workers=1, env={"VP_PLAN": str(k)},
                                  extra=["-simulate", "num=1", "-depth", "400", "-seed", str(seed + 100 + k)])
        with ThreadPoolExecutor(max_workers=8) as tp:
            for rk in tp.map(one, range(1, N_PLANS + 1)):
                r.distinct += rk.distinct
                r.generated += rk.generated
                for e in rk.tagged("EVENT")[:1]:
                    key = json.dumps(e, sort_keys=True)
                    if key not in seen:
                        seen.add(key)
                        out.append(e)
    return out, r


def write_events_file(events, path):
    """Events for the C++ driver, in its line format (values as decimal text)."""
    with open(path, "w") as f:
        for e in events:
            f.write("E\n")
            # an empty TLA+ function is serialised as an empty JSON array
            for key, ids in (e["store"] or {}).items():
                f.write("S %s %d %s\n" % (key, len(ids), " ".join(str(i) for i in ids)))
            for key, v in (e["attr"] or {}).items():
                if v["t"] == "num":
                    f.write("N %s %r\n" % (key, v["n"] / v["d"]))
                elif v["t"] == "obj":
                    f.write("O %s %d\n" % (key, v["id"]))
                elif v["t"] == "seq":
                    if all(x["t"] == "num" for x in v["v"]):
                        f.write("V %s %d %s\n" % (key, len(v["v"]), " ".join(repr(x["n"] / x["d"]) for x in v["v"])))
                    else:
                        f.write("W %s %d %s\n" % (key, len(v["v"]), " ".join(str(x["id"]) for x in v["v"])))
                else:
                    raise common.MachineryError("cannot serialise attribute " + key)


# ------------------------------------------------------------------ one case through the real code

_RESIDUAL = re.compile(r"\{\{|\}\}|\{%|%\}|\{#")


def _compile_and_run(case_dir, backend, events_file, seqs_file, flags=()):
    model = os.path.join(mockbuild.BUILD, "model", backend)
    inc = os.path.join(case_dir, "vp_inc")
    unit = os.path.join(case_dir, "vp_unit.cpp")
    if backend == "atlas":
        os.makedirs(os.path.join(inc, "analysis"), exist_ok=True)
        shutil.copy(os.path.join(case_dir, "query.h"), os.path.join(inc, "analysis", "query.h"))
        with open(unit, "w") as f:
            f.write('#include "%s"\n#include "vp_shim.h"\n' % os.path.join(case_dir, "query.cxx"))
    else:
        os.makedirs(inc, exist_ok=True)
        with open(unit, "w") as f:
            f.write('#include "%s"\n' % os.path.join(case_dir, "Analyzer.cc"))
    exe = os.path.join(case_dir, "vp_job")
    cmd = (["g++"] + mockbuild.CXXFLAGS + list(flags) + ["-I", model, "-include", "vp_pch.h", "-I", inc,
           unit, os.path.join(mockbuild.BUILD, "obj", "vp_driver.o"), "-o", exe])
    p = subprocess.run(cmd, stdout=subprocess.PIPE, stderr=subprocess.STDOUT, text=True, errors="replace")
    comp = {"ok": p.returncode == 0, "stage": "", "msg": ""}
    if p.returncode != 0:
        comp["stage"] = "link" if "undefined reference" in p.stdout or "ld returned" in p.stdout else "compile"
        errs = [ln for ln in p.stdout.splitlines() if "error" in ln]
        comp["msg"] = "\n".join(errs[:3]) if errs else p.stdout[-500:]
        return comp, []
    all_seqs = [ln.split() for ln in open(seqs_file)]
    out = []
    start = 0
    restarts = 0
    while start < len(all_seqs):
        part = os.path.join(case_dir, "vp_seqs_%d.txt" % start)
        with open(part, "w") as f:
            for sq in all_seqs[start:]:
                f.write(" ".join(sq) + "\n")
        try:
            r = subprocess.run([exe, events_file, part], stdout=subprocess.PIPE, stderr=subprocess.PIPE,
                               text=True, errors="replace", timeout=CASE_TIMEOUT)
            rc = r.returncode
            stdout = r.stdout
        except subprocess.TimeoutExpired as ex:
            rc = -999
            stdout = ex.stdout.decode(errors="replace") if isinstance(ex.stdout, bytes) else (ex.stdout or "")
        runs = {}
        for line in stdout.splitlines():
            line = line.strip()
            if not line.startswith("{"):
                continue
            try:
                o = json.loads(line)
            except ValueError:
                continue
            run = runs.setdefault(o["run"], {"booked": None, "events": []})
            if o["r"] == "booked":
                run["booked"] = {"fault": o["fault"], "trees": o["trees"], "consumes": o.get("extra", {}).get("consumes", [])}
            else:
                run["events"].append({"e": o["e"], "requests": o["requests"], "rows": o["rows"], "fault": o["fault"]})
        done = 0
        for i in range(1, len(all_seqs) - start + 1):
            run = runs.get(i)
            if run is None or run["booked"] is None:
                break
            out.append(run)
            done += 1
        if rc == 0 and done == len(all_seqs) - start:
            break
        # the process died (signal, abort, timeout): a loud failure of the event it was processing
        restarts += 1
        crash = "crash:rc=%s" % rc
        if done == 0:
            out.append({"booked": {"fault": crash, "trees": [], "consumes": []}, "events": []})
            done = 1
        else:
            last = out[-1]
            sq = all_seqs[start + done - 1]
            if last["booked"]["fault"] == "none" and len(last["events"]) < len(sq) and \
                    (not last["events"] or last["events"][-1]["fault"] == "none"):
                last["events"].append({"e": int(sq[len(last["events"])]), "requests": [], "rows": [], "fault": crash})
        start += done
        if restarts > 200:
            break
    return comp, out


def _one_case(args):
    """Runs in a freshly forked child: translate, compile, run.  Returns the case record."""
    case, workdir, events_file, seqs_file, keep, flags = args
    d = os.path.join(workdir, "case%d" % case["id"])
    rec = {"id": case["id"], "backend": case["backend"], "q": case["q"], "support": case["support"],
           "src": case["src"], "declv": case.get("declv", "none")}
    try:
        tr = translate.translate_source(case["src"], case["backend"], d, wire=case.get("wire", "ast"))
        files = []
        residual = []
        if tr["outcome"] == "ok":
            for f in tr["files"]:
                ok = True
                if f["name"] == tr["main_script"]:
                    ok = (f["mode"] & 0o111) == 0o111
                files.append({"name": f["name"], "exists": f["exists"], "runnable_ok": ok})
                p = os.path.join(d, f["name"])
                if f["exists"] and _RESIDUAL.search(open(p, errors="replace").read()):
                    residual.append(f["name"])
        libs = []
        cm = os.path.join(d, "package_CMakeLists.txt")
        if tr["outcome"] == "ok" and os.path.exists(cm):
            for ln in open(cm, errors="replace"):
                if "LINK_LIBRARIES AnaAlgorithmLib" in ln:
                    toks = ln.strip().rstrip(")").split()
                    libs = toks[toks.index("AnaAlgorithmLib") + 1:]
                    break
        nwarn = sum(1 for w in tr["warnings"] if "assuming that the method" in w)
        rec["translate"] = {"outcome": tr["outcome"], "exc": tr["exc"], "msg": tr["msg"], "treename": tr["treename"], "libs": libs,
                            "nwarn": nwarn, "checkwarn": bool(case.get("checkwarn", False)),
                            "filename": tr["filename"], "files": files, "residual": residual,
                            "warnings": tr["warnings"]}
        rec["compile"] = {"ok": False, "stage": "", "msg": ""}
        rec["runs"] = []
        if tr["outcome"] == "ok":
            comp, runs = _compile_and_run(d, case["backend"], events_file, seqs_file, flags)
            rec["compile"] = comp
            rec["runs"] = runs
            if keep:
                main = "query.cxx" if case["backend"] == "atlas" else "Analyzer.cc"
                try:
                    rec["emitted"] = open(os.path.join(d, main)).read()
                except OSError:
                    pass
    finally:
        shutil.rmtree(d, ignore_errors=True)
    return rec


def run_cases(cases, events, seqs, flags=(), keep_emitted=False, procs=None):
    """cases: list of dicts with id, backend, q (term), support, src.  Returns the list of case records."""
    mockbuild.build_all()
    work = common.scratch("verif.p.")
    events_file = os.path.join(work, "events.txt")
    seqs_file = os.path.join(work, "seqs.txt")
    write_events_file(events, events_file)
    with open(seqs_file, "w") as f:
        for s in seqs:
            f.write(" ".join(str(i) for i in s) + "\n")
    common.use_repo()
    translate.executor_for("atlas")  # warm the parent: modules imported, nothing translated yet
    _pristine()
    args = [(c, work, events_file, seqs_file, keep_emitted, tuple(flags)) for c in cases]
    ctx = mp.get_context("fork")
    with ctx.Pool(processes=procs or common.NCPU, maxtasksperchild=1) as pool:
        recs = pool.map(_one_case, args, chunksize=1)
    return recs


def _pristine():
    """The parent only imported the library and built one executor; put the registries back
    to what a fresh interpreter has, so that every forked child starts like a fresh process."""
    import func_adl_xAOD.common.cpp_types as ctyp
    import func_adl_xAOD.common.cpp_vars as cv
    ctyp.g_method_type_dict = {}
    ctyp.g_toplevel_ns = {}
    cv.unique_var_index = 0


# ------------------------------------------------------------------ validation (code -> spec)

def validate(recs, events, math_file=None, batch=400):
    """TLC trace validation of case records; returns (verdicts, summaries, states, transitions).
    verdicts: list of (case id, clause, run, pos)."""
    verdicts = []
    expected = {}
    summaries = {}
    states = trans = 0
    work = common.scratch("verif.v.")
    slim = []
    for r in recs:
        slim.append({k: r[k] for k in ("id", "backend", "q", "support", "compile", "runs")} | {"declv": r.get("declv", "none")} |
                    {"translate": {k: r["translate"][k] for k in ("outcome", "exc", "treename", "filename", "files", "residual")} |
                                  {"libs": r["translate"].get("libs", []), "nwarn": r["translate"].get("nwarn", 0),
                                   "checkwarn": r["translate"].get("checkwarn", False)}})
    for i in range(0, len(slim), batch):
        chunk = slim[i:i + batch]
        tf = os.path.join(work, "trace%d.json" % i)
        math = json.load(open(math_file)) if math_file else {}
        json.dump({"events": events, "cases": chunk, "math": math}, open(tf, "w"))
        env = {"TRACE_FILE": tf}
        res = common.run_tlc("JobTrace", "JobTrace.cfg", env=env)
        os.unlink(tf)
        for v in res.plain("VERDICT"):
            verdicts.append((v[1], v[2], v[3], v[4]))
        for x in res.tagged("EXPECTED"):
            expected[(x["id"], x["run"], x["pos"])] = x["want"]
        done = res.plain("SUMMARY")
        if len(done) != len(chunk):
            raise common.MachineryError("trace validation finished %d of %d cases" % (len(done), len(chunk)))
        for s in done:
            summaries[s[1]] = {"judged": s[2], "skipped": s[3], "nfault": s[4], "nrow": s[5]}
        states += res.distinct
        trans += res.generated
    validate.expected = expected
    return verdicts, summaries, states, trans
